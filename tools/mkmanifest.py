#!/venv/bin/python
"""writes /verif/MANIFEST.json from the table below (kept in one place so it stays valid)"""
import json
import os

VERIF = os.path.dirname(os.path.dirname(os.path.abspath(__file__)))
BASELINE = "cd /repo && /venv/bin/python -m pytest -ra -q -p no:cacheprovider --timeout=900 --continue-on-collection-errors"

CHECKS = {
    "C03": dict(
        text=("Theorems over the Gallina model of feature_model.py's queries, for all trees of any size: the feature "
              "listing is a permutation of the structural enumeration of the tree (each feature exactly once), lookup by "
              "name, parent/children/root, every relation with 0<=min<=max<=n in exactly one class that is a function of "
              "(min,max,n) only, every filtered listing = filter of the full listing by what the classification implies. "
              "Construction (\"built through the public constructors\"): a heap model of feature objects and the calls that link "
              "them (Feature(...), add_relation, del relations[k], Relation.add_child, parent assignment); along every run of "
              "calls that respect their guards every reachable state is linked (a relation's parent is its holder, every child's "
              "parent pointer is that holder, also after a subtree was moved), and on linked objects the pointer-following "
              "predicates (get_parent, is_root, Feature.is_mandatory / is_optional) equal the holding relation's. "
              "The model is tied to /repo by differential execution (suite Q on exhaustive small and random models, suite L on "
              "random call sequences, comparing the object graph by identity); a "
              "Python oracle written from the property text decides concrete violations. Source tie (DESIGN §10): Relation.is_*, Feature.is_* / get_*, the FeatureModel listings and lookup are re-translated from feature_model.py into Gallina on every run (Gen/Src_fm.v) and proved equal to the hand model for all inputs (C03_source_*: classification, listings as located features, parent/root, lookup)."),
        note=("Coq kernel; extraction + OCaml driver; the harness; hand-written model of feature_model.py validated only on "
              "the generated inputs; no axioms (Print Assumptions: closed under the global context)"),
        technique="Coq proof over hand-written Gallina model + differential correspondence (extracted OCaml vs Python) + source re-translated into Gallina on every run (tools/py2coq.py) and proved equal to the model",
        design="4 C03"),
    "C13": dict(
        text=("Theorems: the enumerator [confs] is sound, complete and duplicate-free for the relational semantics [Valid] of "
              "the feature tree (bit-vector configurations), and [estimate] — the transcription of count_configurations_rec — "
              "equals its length for every tree with 0<=min and (max=-1 or 0<=max), all relation kinds, any number of "
              "relations per parent, any size; any further filter (constraints) gives <= estimate. Tie to the code: "
              "differential suite O-estimate; the semantics itself is validated against an independent brute-force enumerator. Source tie (DESIGN §10): count_configurations(_rec) and the FMEstimatedConfigurationsNumber object are re-translated from the Python text on every run (Gen/Src_ops.v, Gen/Src_opobj.v); C13_source_exact / _upper / _object state the property about the translated source, for every tree and every prior state of the operation object."),
        note="Coq kernel; extraction/driver; harness; the Gallina semantics as the reading of 'valid configuration'; no axioms",
        technique="Coq proof (induction over the tree, elementary symmetric polynomials) + differential correspondence + source re-translated into Gallina on every run (tools/py2coq.py) and proved equal to the model",
        design="4 C13"),
    "C14": dict(
        text=("Theorems over the name-form semantics [sem]/[valid]: every core feature is selected in every valid configuration "
              "(with or without constraints), returned once under unique names, root included, and — without constraints — every "
              "always-selected name is returned (constructive: a valid selection avoiding any non-core feature is built). "
              "Tie to the code: suite O-core (multiset comparison) with a brute-force oracle. Source tie (DESIGN §10): get_core_features (the work-list loop itself) and the FMCoreFeatures object are re-translated on every run; C14_source_sound / _once_root / _complete / _object are the property about the translated source (result order covered: the theorem is about the loop the code runs)."),
        note="Coq kernel; extraction/driver; harness; result order of the work-list loop not modelled (multiset); no axioms",
        technique="Coq proof over hand-written Gallina model + differential correspondence + source re-translated into Gallina on every run (tools/py2coq.py) and proved equal to the model",
        design="4 C14"),
    "C15": dict(
        text=("Theorems: the atomic sets are a partition of the feature names (permutation of the name list, no empty set), members "
              "of one set have equal selection value in every configuration obeying the tree rules, mandatory children are in the "
              "parent's set. Tie to the code: suite O-atomic with a brute-force oracle. Source tie (DESIGN §10): get_atomic_sets / compute_atomic_sets are re-translated from fm_atomic_sets.py on every run with a store of the shared, mutated set objects (Gen/Src_atomic.v); C15_source_is_model proves that the translated source returns the model's sets, in order, for every model with distinct feature names, and C15_source_partition / _coselected restate the property about it."),
        note="Coq kernel; extraction/driver; harness; the structural formulation of the recursive set construction is validated by correspondence; no axioms",
        technique="Coq proof over hand-written Gallina model + differential correspondence + source re-translated into Gallina on every run (tools/py2coq.py) and proved equal to the model",
        design="4 C15"),
    "C16": dict(
        text=("Theorems: leaves/leaf count = features without relations, max depth = longest root-to-leaf path, ancestors table = "
              "chain of parents up to the root for every feature, branching factor = bit-exact Python round(children/branches, 2) "
              "with a proved error bound to the exact rational, variation points = features with non-mandatory relations. Totality "
              "on the implementation (incl. root-only model) is decided by the correspondence suite O-tree, not by a theorem. Source tie (DESIGN §10): the six operation functions and their operation objects are re-translated on every run; C16_source_* state count, leaves, depth, ancestors, branching factor, variation points (under distinct names) and totality about the translated source."),
        note="Coq kernel; extraction/driver; harness; binary64 division and round() modelled in Z and validated on every case; no axioms",
        technique="Coq proof over hand-written Gallina model + differential correspondence + source re-translated into Gallina on every run (tools/py2coq.py) and proved equal to the model",
        design="4 C16"),
    "C18": dict(
        text=("Theorems over the Gallina transcription of the Constraint predicates, for all well-formed logical trees: a "
              "constraint reported requires/excludes is logically equivalent to l=>r / not(l and r) for the extracted pair; "
              "the seven documented forms are classified and yield (a,b); simple/complex/pseudo/strict are mutually "
              "consistent (every complex constraint exactly one of pseudo/strict); split parts' conjunction is equivalent to "
              "the constraint (PARTIAL: without XOR/EQUIVALENCE — the full statement is refuted with witnesses, an open "
              "finding in the flamapy.core dependency); features = names occurring, once. 'Never raises / never modifies' "
              "is decided on the implementation by suite K (AST dump before/after), not by a theorem. Source tie (DESIGN §10): the Constraint predicates, get_features, left_right_features_from_simple_constraint and split_formula are re-translated from feature_model.py on every run and proved equal to the hand model (C18_source_is_model), so C18_source_requires_sound / _excludes_sound / _no_error / _features are about the translated source."),
        note=("Coq kernel; extraction/driver; harness; fuelled transcriptions of simplify_formula/to_cnf (theorems conditional on "
              "an Ok result; fuel exhaustion never observed); known finding core-simplify-xor-equivalence; no axioms"),
        technique="Coq proof over hand-written Gallina model + differential correspondence + truth-table oracle + source re-translated into Gallina on every run (tools/py2coq.py) and proved equal to the model",
        design="4 C18"),
    "C20": dict(
        text=("Theorems: the four equalities are reflexive and symmetric; equal objects have equal hash keys (hence equal hashes "
              "for any hash function); relation equality ignores child order; model equality holds exactly when root names agree "
              "and the multisets of feature names, relation keys (owner, sorted members, min, max) and lower-cased constraint "
              "texts coincide — which gives both order-independence and 'any structural difference => unequal'; an "
              "order-permuted copy (recursively) is equal. Tie to the code: suite Q2 compares ==, hash, <, set/dict use. Source tie (DESIGN §10): Feature / Relation / Constraint / FeatureModel __eq__, __lt__ and _sort_key are re-translated from feature_model.py on every run (stable sorted(), list and tuple comparison as Python defines them) and proved equal to the hand model (C20_source_is_model); reflexivity, symmetry, the order-insensitive characterisation, permuted copies and equal-hash are restated about the translated source."),
        note="Coq kernel; extraction/driver; harness; Python's sorted() modelled as a stable insertion sort; str.lower as a parameter; no axioms",
        technique="Coq proof over hand-written Gallina model + differential correspondence + source re-translated into Gallina on every run (tools/py2coq.py) and proved equal to the model",
        design="4 C20"),
    "C05": dict(
        text=("Theorems over the Gallina transcription of json_writer.to_json and json_reader.parse_tree/parse_constraints: for "
              "every model of the JSON fragment (any tree, any relation cardinalities, any names, any attribute values) the reader "
              "applied to what the writer produced returns the same model with correct back pointers — plain equality — and "
              "therefore any number of cycles; the fuel (document depth) the reader model uses is proved sufficient; objects are read by key, not position "
              "(entries of any object with distinct keys may be permuted at any depth, except inside the two values stored raw), keys "
              "the format does not define are ignored at all six kinds of object, n-ary AND/OR/XOR terms are left folds and a nested "
              "first operand may be merged anywhere. The JSON text "
              "layer (json.dumps/loads) is an external-library hypothesis validated by parsing the implementation's file on every case. Source tie (DESIGN §10): the five functions of json_writer.py are re-translated on every run (Gen/Src_json.v); C05_source_writer proves the translated to_json equal to json_write for every model, errors included, so C05_source_roundtrip is the round trip of the translated writer."),
        note="Coq kernel; extraction/driver; harness; json module round trip; no axioms",
        technique="Coq proof (round-trip by induction over the tree) + differential correspondence on writer and reader + source re-translated into Gallina on every run (tools/py2coq.py) and proved equal to the model",
        design="4 C05"),
    "C07": dict(
        text=("Theorems over the Gallina transcription of featureide_writer / featureide_reader on element trees: for every "
              "model of the FeatureIDE fragment (unique names, any tree of and/or/alt features, abstract flags, constraints over "
              "not/and/or/implies/iff/requires/excludes or a single literal, possibly none) reading what the writer produced gives "
              "the normal form [fide_norm m] — same tree, constraints renamed 1..k and rewritten into logically equivalent "
              "implies/not/and forms (proved equivalent under every assignment) — which is in the fragment and a fixed point, so "
              "further cycles change nothing. The XML text layer is an external-library hypothesis validated on every case. Source tie (DESIGN §10), partial: the pure helper functions of featureide_writer.py (_tag_element, _get_attributes, _get_ctc_info, _get_constraints_info) are re-translated on every run (Gen/Src_fide.v) and proved equal to the model's tag, attribute list and intermediate constraint tree (C07_source_*); the functions assembling ElementTree elements mutate shared XML objects and stay tied by suite W-fide; of featureide_reader.py the constraint half (_parse_rule with its field assignments on freshly created nodes, _read_constraints) is re-translated (Gen/Src_fider.v) and proved EQUAL to the model's fide_parse_rule / fide_read_constraints, errors included (C07_source_reader_rule, C07_source_reader_constraints); _read_features changes a feature after appending it to a list (aliasing) and stays tied by suites R-fide / R-fide-3p."),
        note="Coq kernel; extraction/driver; harness; ElementTree/minidom round trip; names with tab/CR/LF excluded (attribute-value normalisation of the stdlib serializer); no axioms",
        technique="Coq proof (round-trip by induction over the tree and the constraint syntax) + differential correspondence + helper functions re-translated into Gallina on every run (tools/py2coq.py) and proved equal to the model",
        design="4 C07"),
    "C08": dict(
        text=("Theorems over the Gallina transcription of glencoe_writer / glencoe_reader: for every model of the Glencoe fragment "
              "(unique names of any characters, plain children or one group of any cardinality with mandatory siblings, logical "
              "constraints incl. xor/excludes with distinct names over feature names) the writer succeeds and the reader returns the "
              "normal form [glencoe_norm m] (children sorted by name, mandatory-beside-group relations first, requires spelled "
              "implies): same names, same constraint names, constraints equal under every assignment; the normal form is in the "
              "fragment and a fixed point, so further cycles change nothing. Feature-table lookups by name, the path bookkeeping "
              "of grouped / non-grouped children and the reader's fuel are all covered by the proof. Source tie (DESIGN §10): the five functions of glencoe_writer.py are re-translated on every run (Gen/Src_glencoe.v); C08_source_writer proves the translated _to_json equal to glencoe_write for every model, errors included (this proof found the model's sort not stable where Python's sorted is; the model's sort_by is now the stable one), so C08_source_roundtrip is the round trip of the translated writer. GlencoeReader (transform with the loaded document as input, _parse_tree, _parse_constraints, _parse_ast_constraint) is re-translated too (Gen/Src_glencoer.v): C08_source_reader proves that what the model reads the translated reader reads, C08_source_reader_error / _library_error that it fails where the model fails, with the library's exception where the model names it (this proof found the hand model stricter than the code on 'optional' entries that are not JSON booleans; the model now takes their truth value as the code does, and the suites generate such documents), and C08_source_cycle composes the translated writer and the translated reader into the normal form of the model."),
        note="Coq kernel; extraction/driver; harness; json module round trip; no axioms",
        technique="Coq proof (round-trip through a name-keyed table, sorting lemmas) + differential correspondence + source re-translated into Gallina on every run (tools/py2coq.py) and proved equal to the model",
        design="4 C08"),
    "C06": dict(
        text=("Theorems over the Gallina transcription of afm_writer / afm_reader around the external ANTLR parser: for every "
              "model of the AFM fragment the reader applied to the writer's syntax tree returns the normal form [afm_norm m] "
              "with correct back pointers (the by-name lookup of parents line by line is proved correct under unique names); the "
              "normal form keeps names, the multiset of relations per parent, attributes and the constraint TREES unchanged and "
              "is a fixed point. End to end the statement holds for ANY parser that inverts the rendering on writer output — "
              "an explicit premise, not an axiom, validated by suite P-afm against the real parser on every case. Source tie (DESIGN §10): the AFMWriter class is re-translated from afm_writer.py on every run as a state record with its methods (Gen/Src_afm.v); C06_source_writer proves that the translated transform() returns the text the hand model writes for every model the model accepts (real values with a pointed positional spelling: every genuine float repr) and C06_source_writer_library_error that its library errors are the code's."),
        note="Coq kernel; extraction/driver; harness incl. the ANTLR-tree conversion; afmparser; premise antlr(render d)=d; no axioms",
        technique="Coq proof (round trip on syntax trees, parser as a universally quantified function with a stated premise) + differential correspondence on bytes, parse trees and read models + source re-translated into Gallina on every run (tools/py2coq.py) and proved equal to the model",
        design="4 C06"),
    "C12": dict(
        text=("PARTIAL. Proved: in the model every writer is a function of the model value, so a writer step leaves the model "
              "unchanged, returns what it writes and is idempotent; the propositional export's meaning is independent of the order "
              "of its formulas. Observed, not proved (suite H decides this check): byte-identical output of all eight writers across "
              "fresh processes, hash seeds, locales and default encodings, returned = file, UTF-8 files read back with the same "
              "names, model dump unchanged. Source tie (DESIGN §10): six writers are re-translated from the Python text on every run; the translator accepts a mutation only on containers the function created itself and the one with-open-write of the local that is then returned, so the existence of the translations (obligation source-translation) is 'does not modify the model, writes UTF-8, returns what it wrote' read off the source, and C12_source_output_is_a_function_of_the_model that the output depends on the model alone."),
        note="Coq kernel for the model-level statements; the environment independence is sampled (5 / 24 environments), it cannot be a theorem about a Gallina model",
        technique="Coq proof of model-level purity + observational determinism suite across interpreter environments + source re-translated into Gallina on every run (tools/py2coq.py) and proved equal to the model",
        design="4 C12"),
    "C17": dict(
        text=("Theorems over the Gallina transcription of the 40 metric methods and Metrics.execute: every metric once in dir() "
              "order, totality (40 entries) for well-formed logical constraints, size = length, ratio = Python's round(size/base, 4) "
              "and within [0,1] for every ratio-carrying metric, the partition identities (abstract/concrete, leaf/compound, "
              "solitary/grouped with mandatory and optional inside solitary, requires/excludes = simple, simple/complex = logical, "
              "pseudo and strict inside complex), equality of the duplicated metrics with the stand-alone operations, filter = "
              "sub-list of the full report, independence from earlier executions. Source tie (DESIGN §10): fm_metrics.py is re-translated on every run "
              "(Gen/Src_metrics.v: the class as a state record, the 40 decorated methods, the caches filled by calculate_metamodel_metrics, the "
              "reflection over @metric_method as the list of decorated names in dir() order); C17_source_report proves that the translated "
              "calculate_metamodel_metrics, from ANY state of the operation object, returns the model's report entry for entry (errors included) "
              "for every model with distinct names whose relations have children; C17_source_history that two objects with the same filter agree."),
        note="Coq kernel; extraction/driver; harness; translator tools/py2coq.py + Model/PyRt.v; bit-exact Python round()/float division model (Base/PyFloat.v); ratio range needs constraints over feature names; no axioms",
        technique="Coq proof over hand-written Gallina model + model regenerated from source by a translator (proved equal to the hand model) + differential correspondence with re-used operation objects",
        design="4 C17"),
    "C19": dict(
        text=("Read-only operations are Gallina functions of the model (no state to depend on, nothing to mutate) tied to the code "
              "by sequences on re-used operation objects with pre/post dumps; proved: the metrics step ignores stored state; random "
              "attribute generation, for EVERY oracle stream of random draws: missing domain = library error, only attribute lists "
              "change, each targeted feature lacking the attribute gets exactly one with the given name and domain, everything else "
              "keeps its attributes, and the value is a listed element, an integer inside a listed integer range or a decimal inside a "
              "listed float range (given randint answers within its bounds and ordered ranges). Source tie (DESIGN §10): the eight tree-operation classes are translated as state records (Gen/Src_opobj.v); C19_source_objects_depend_on_argument_only proves that in ANY state — after any history of executions — the reported result is the function's value on the model of the current execution."),
        note="Coq kernel; extraction/driver; harness recording the random module's draws; float results as exact decimals; no axioms",
        technique="Coq proof over an oracle-stream model + differential correspondence with recorded draws + source re-translated into Gallina on every run (tools/py2coq.py) and proved equal to the model",
        design="4 C19"),
    "C09": dict(
        text=("Theorems over the reader models: FaMa XML — for every reference model and EVERY combination of the format's "
              "syntactic freedom (tag letter case, cardinality element before or after the children, relation name attributes, "
              "binary vs set relation for a single child) the reader returns exactly the reference model; FeatureIDE — the reader "
              "is invariant under graphics / description elements, mandatory=\"false\" / abstract=\"false\", attribute order, "
              "reads n-ary conj / disj as the left fold, and reads the canonical document of a model as that model (also with no "
              "constraints section). AFM — redundant parentheses anywhere in any constraint of a document and absent sections do not change what is read; "
              "Glencoe — closure theorems over whole documents: keys the format does not define inserted at any level (document, "
              "features entries, tree nodes, constraint terms), n-ary And/Or/Xor terms flattened anywhere, entries of objects "
              "permuted (except the constraints object, whose order is the constraint order — the unrestricted claim is refuted) "
              "do not change what is read. PARTIAL for AFM and Glencoe beyond that: that the reference-emitter documents denote "
              "their reference models is decided by the oracle on suites R-afm-3p / R-glencoe-3p, not by a theorem. The shipped corpus is read by model and implementation and compared "
              "with Betty's own statistics. One open finding (AFM grammar rejects harmless blanks, afmparser) is reproduced by suite R-afm-known."),
        note=("Coq kernel; extraction/driver; harness reference emitters (the reading of the four formats); external XML / JSON / "
              "ANTLR parsers; no axioms"),
        technique="Coq proof over hand-written Gallina reader models and a Gallina reference emitter + differential correspondence",
        design="4 C09"),
    "C01": dict(
        text=("Theorems over the Gallina models of uvl_writer.py / uvl_reader.py, for every model of the UVL fragment [uvl_ok] "
              "(any size; all relation kinds, group and feature cardinalities incl. *, typed features, nested attribute values, "
              "names needing quotes, constraints over logical / comparison / arithmetic / aggregate operators incl. qualified "
              "feature.attribute references whose parts need quotes): the reader applied "
              "to the writer's syntax tree returns the normal form [uvl_norm m] with correct back pointers; the normal form keeps "
              "the whole tree unchanged and maps each constraint to a logically equivalent one, stays in the fragment, is idempotent, "
              "and is written as the byte-identical text (so any number of cycles changes nothing). End to end for ANY parser "
              "function that returns the writer's syntax tree on the writer's text (explicit premise, validated on every case by "
              "suite P-uvl against the real ANTLR parser). Bytes tied to the code by suite W-uvl, reader by suite R-uvl. Open findings (names starting with an apostrophe; string values with a full stop or line break, uvlparser) are reproduced by fixed models (suite R-uvl-known-models) and printed as KNOWN-FINDING. Source tie (DESIGN §10): the UVLWriter class is re-translated from uvl_writer.py on every run as a state record with its methods (Gen/Src_uvl.v); C01_source_writer proves that the translated transform() returns the text the hand model writes (for every large enough fuel), C01_source_roundtrip is the round trip of the translated writer under the same parser premise."),
        note=("Coq kernel; extraction/driver; harness incl. conversion of the ANTLR parse tree; the external uvlparser/antlr4 runtime "
              "enters only through the stated premise; float tokens carry Python's repr; no axioms"),
        technique="Coq proof (writer/reader models over a concrete-syntax-tree type, parser as premise) + differential correspondence + source re-translated into Gallina on every run (tools/py2coq.py) and proved equal to the model",
        design="4 C01"),
    "C02": dict(
        text=("Theorems for all six reader models (JSON, Glencoe, FeatureIDE, FaMa XML, UVL, AFM) and EVERY document / parse tree "
              "they accept: the returned pointer-annotated model satisfies [ptr_wf] (root parentless; every feature's parent, every "
              "relation's parent and every attribute's owner is the node where it sits) and every constraint AST has the operands "
              "its operator needs (UVL under the grammar-guaranteed hypothesis that no binary node carries NOT; the statement without "
              "it is refuted in the development); no reader returns an empty relation (JSON, Glencoe, FeatureIDE, FaMa: for every document, "
              "three of them since the fix: commits that made the readers reject childless relations; UVL, AFM: under the hypothesis that the parse "
              "tree has no empty group, which the grammars guarantee, the harness asserts on every tree and the development shows necessary). The back pointers of the implementation's "
              "result are dumped and compared with the reader models on every document of the reader suites; the oracle walks the "
              "live object graph. Open findings (flamapy.core pretty_str on one-argument aggregates; names starting with an apostrophe) are reproduced by suite R-known-consumers and printed as KNOWN-FINDING."),
        note=("Coq kernel; extraction/driver; harness dumper of back pointers (public attributes only); external parsers as in "
              "C01/C05-C09; only the reader suites and the graph clauses count for this check; no axioms"),
        technique="Coq proof over pointer-annotated reader models + differential correspondence on the reader suites",
        design="4 C02"),
    "C04": dict(
        text=("PARTIAL. Theorems over the UVL reader model: what is read does not depend on redundant parentheses, quoting of a "
              "reference, whether several children share one group keyword, an explicit Boolean type, [n] vs [n..n]; the canonical "
              "document of a model reads as that model (C01); CLOSURE: [dvar], the equivalence closure of these rewrites (plus "
              "quoted attribute keys, alternative / or written as the cardinality group they abbreviate, absent vs empty sections) "
              "applied at any depth and position, is invisible to the reader, hence every surface variant of a model's canonical "
              "document reads as that model (C04_variant_denotes); a parser-reported syntax error becomes a library error and "
              "never a model. Not proved: which texts the external ANTLR parser accepts/rejects and how comments, blank lines and headers "
              "vanish in its parse tree — decided on the implementation by suite R-uvl-emitter (independent reference emitter + "
              "oracle: model read = reference model) and suite P-uvl-invalid (one-defect documents must raise). Six open findings "
              "(five rooted in the uvlparser dependency) are reproduced by fixed documents with controls (suite R-uvl-known) and "
              "printed as KNOWN-FINDING."),
        note=("Coq kernel; extraction/driver; harness reference emitter (its reading of the UVL language); the external parser is "
              "sampled, not modelled; no axioms"),
        technique="Coq proof over the reader model on parse trees + differential correspondence with a reference emitter",
        design="4 C04"),
    "C10": dict(
        text=("Theorems over the Gallina models of splot_writer.py and pl_writer.py with a semantics of each target format: SPLOT — "
              "the SXFM tree admits exactly the selections the feature tree admits (every tree, all relation kinds), the CNF clause "
              "section is equivalent to the constraints for constraints without XOR / EQUIVALENCE (PARTIAL: for those the full "
              "statement is refuted by a witness — open finding in the flamapy.core dependency), no feature is missing; pl — the "
              "exported lines hold exactly for the valid configurations of the model (cardinality groups as the disjunction over "
              "subsets; all constraints), every feature is mentioned. Bytes tied to the code by suites W-splot / W-pl; independent "
              "interpreters of the two formats enumerate the configurations of the written files (suites S-*). A second open finding (names not made safe for SXFM / .exp) is reproduced by suite W-export-known. Source tie (DESIGN §10): splot_writer.py and pl_writer.py are re-translated on every run (Gen/Src_splot.v, Gen/Src_pl.v); C10_source_splot_text proves the translated fm_to_splot equal to the rendering of the SXFM document the semantic theorems are about, C10_source_pl_lines that the lines of the translated to_exp are a permutation of the rendered formulas (the explicit-stack order of the code)."),
        note=("Coq kernel; extraction/driver; harness interpreters of SXFM and pl (the check's reading of the formats); the Gallina "
              "semantics of the two formats; no axioms"),
        technique="Coq proof (semantic preservation of the export over format semantics) + differential correspondence + source re-translated into Gallina on every run (tools/py2coq.py) and proved equal to the model",
        design="4 C10"),
    "C11": dict(
        text=("Theorems over the Gallina model of clafer_writer.py with a semantics of the Clafer subset: the instances of the "
              "exported hierarchy and constraints are exactly the valid configurations of the model (unique names; every relation "
              "kind the writer maps to xor/or/mux/[a..b]/?), every logical operator is translated and means the same, safe "
              "identifiers are injective, every attribute is declared. Bytes tied to the code by suite W-clafer; an independent "
              "interpreter of the Clafer subset enumerates instances of the written file (suite S-clafer). One open finding (quotes / line breaks / digit-only names / the writer's own clafer names) is reproduced by suite W-clafer-known. Source tie (DESIGN §10): clafer_writer.py is re-translated on every run (Gen/Src_clafer.v); C11_source_text proves the translated fm_to_clafer equal to the rendering of the Clafer document the semantic theorems are about, errors included, for every model whose real values have a pointed positional spelling (every genuine float repr)."),
        note=("Coq kernel; extraction/driver; harness interpreter of the Clafer subset (no Clafer tool is installed); the Gallina "
              "semantics of the subset; no axioms"),
        technique="Coq proof (semantic preservation of the export over a Clafer-subset semantics) + differential correspondence + source re-translated into Gallina on every run (tools/py2coq.py) and proved equal to the model",
        design="4 C11"),
}

NOT_YET = {
}


def main():
    checks = []
    for pid, c in CHECKS.items():
        checks.append({
            "property_id": pid,
            "quick_cmd": f"./check {pid} quick",
            "thorough_cmd": f"./check {pid} thorough",
            "evidence_file": f"/verif/evidence/{pid}.json",
            "replay_cmd_template": f"./check {pid} --replay {{path}}",
            "engine": "coq-model",
            "level_claimed": {"category": "proof", "text": c["text"], "design_ref": c["design"]},
            "level_note": c["note"],
            "technique": c["technique"],
        })
    props = [json.loads(l)["id"] for l in open(os.path.join(VERIF, "properties.jsonl"))]
    na = [{"property_id": p, "reason": NOT_YET.get(p, "check not built yet in this round (see DESIGN.md section 7); the technique applies")}
          for p in props if p not in CHECKS]
    manifest = {
        "version": 1,
        "setup_cmd": "make -C /verif setup",
        "hooks": {
            "guard": "FLAMAPY_FM_METAMODEL_VERIF",
            "enable": "environment variable set by ./check for the implementation; no instrumentation of /repo is needed (all observation goes through public attributes)",
            "baseline_off_cmd": BASELINE,
            "source_commits": [],
            "add_only": True,
        },
        "engines": [{"name": "coq-model", "path": "/verif/coq", "serves_properties": list(CHECKS),
                     "kind_free_text": "Coq 8.16 development (FM.*): hand-written Gallina model, theorems in Props/, extracted to OCaml and run against the implementation by harness/check.py"}],
        "checks": checks,
        "notes": "fix: commits in /repo are listed in known_findings.json with status fixed.",
        "not_applicable": na,
    }
    json.dump(manifest, open(os.path.join(VERIF, "MANIFEST.json"), "w"), indent=1)


if __name__ == "__main__":
    main()
