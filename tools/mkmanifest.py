#!/venv/bin/python
"""writes /verif/MANIFEST.json from the table below (kept in one place so it stays valid)"""
import json
import os

VERIF = os.path.dirname(os.path.dirname(os.path.abspath(__file__)))
BASELINE = "cd /repo && /venv/bin/python -m pytest -ra -q -p no:cacheprovider --timeout=900 --continue-on-collection-errors"

CHECKS = {
    "C03": dict(
        text=("Theorems over the Gallina model of feature_model.py's queries, for all trees of any size: the feature "
              "listing is a permutation of the structural enumeration of the tree (each feature exactly once), lookup by "
              "name, parent/children/root, every relation with 0<=min<=max<=n in exactly one class that is a function of "
              "(min,max,n) only, every filtered listing = filter of the full listing by what the classification implies. "
              "The model is tied to /repo by differential execution (suite Q) on exhaustive small and random models; a "
              "Python oracle written from the property text decides concrete violations."),
        note=("Coq kernel; extraction + OCaml driver; the harness; hand-written model of feature_model.py validated only on "
              "the generated inputs; no axioms (Print Assumptions: closed under the global context)"),
        technique="Coq proof over hand-written Gallina model + differential correspondence (extracted OCaml vs Python)",
        design="4 C03"),
}

NOT_YET = {
}


def main():
    checks = []
    for pid, c in CHECKS.items():
        checks.append({
            "property_id": pid,
            "quick_cmd": f"./check {pid} quick",
            "thorough_cmd": f"./check {pid} thorough",
            "evidence_file": f"/verif/evidence/{pid}.json",
            "replay_cmd_template": f"./check {pid} --replay {{path}}",
            "engine": "coq-model",
            "level_claimed": {"category": "proof", "text": c["text"], "design_ref": c["design"]},
            "level_note": c["note"],
            "technique": c["technique"],
        })
    props = [json.loads(l)["id"] for l in open(os.path.join(VERIF, "properties.jsonl"))]
    na = [{"property_id": p, "reason": NOT_YET.get(p, "check not built yet in this round (see DESIGN.md section 7); the technique applies")}
          for p in props if p not in CHECKS]
    manifest = {
        "version": 1,
        "setup_cmd": "make -C /verif setup",
        "hooks": {
            "guard": "FLAMAPY_FM_METAMODEL_VERIF",
            "enable": "environment variable set by ./check for the implementation; no instrumentation of /repo is needed (all observation goes through public attributes)",
            "baseline_off_cmd": BASELINE,
            "source_commits": [],
            "add_only": True,
        },
        "engines": [{"name": "coq-model", "path": "/verif/coq", "serves_properties": list(CHECKS),
                     "kind_free_text": "Coq 8.16 development (FM.*): hand-written Gallina model, theorems in Props/, extracted to OCaml and run against the implementation by harness/check.py"}],
        "checks": checks,
        "notes": "fix: commits in /repo are listed in known_findings.json with status fixed.",
        "not_applicable": na,
    }
    json.dump(manifest, open(os.path.join(VERIF, "MANIFEST.json"), "w"), indent=1)


if __name__ == "__main__":
    main()
