"""per-format table generators (registered into gen_tables.GENERATORS on import)"""
import ast

from gen_tables import REPO_PKG, coq_str, enum_members, find_assign, find_class, parse, register, write

STR_HDR = "From Coq Require Import String List.\nFrom FM Require Import Base.AstOp.\nImport ListNotations.\nOpen Scope string_scope.\n"


def dict_astop_to_str(node, resolve=lambda n: None):
    """{ASTOperation.X: <str or resolvable expr>} -> [(X, str)]"""
    if not isinstance(node, ast.Dict):
        raise SystemExit("gen_tables: expected a dict literal")
    out = []
    for k, v in zip(node.keys, node.values):
        if not (isinstance(k, ast.Attribute) and isinstance(k.value, ast.Name) and k.value.id == "ASTOperation"):
            raise SystemExit("gen_tables: dict key is not an ASTOperation member")
        if isinstance(v, ast.Constant) and isinstance(v.value, str):
            out.append((k.attr, v.value))
        else:
            r = resolve(v)
            if r is None:
                raise SystemExit("gen_tables: cannot resolve dict value")
            out.append((k.attr, r))
    return out


def table_fn(name, pairs, default):
    """a total function astop -> option string as a match"""
    body = f"Definition {name} (o : astop) : option string :=\n  match o with\n"
    for k, v in pairs:
        body += f"  | {k} => Some {coq_str(v)}\n"
    body += "  | _ => None\n  end.\n" if len(pairs) < 23 else "  end.\n"
    return body


@register("json")
def gen_json():
    tree = parse(f"{REPO_PKG}/transformations/json_writer.py")
    members = dict(enum_members(find_class(tree, "JSONFeatureType")))
    need = ["FEATURE", "XOR", "OR", "MUTEX", "CARDINALITY", "OPTIONAL", "MANDATORY"]
    body = STR_HDR
    for n in need:
        if n not in members:
            raise SystemExit(f"gen_tables: JSONFeatureType.{n} missing")
        body += f"Definition jt_{n} : string := {coq_str(members[n])}.\n"
    write("json", body)


@register("glencoe")
def gen_glencoe():
    tree = parse(f"{REPO_PKG}/transformations/glencoe_writer.py")
    cls = find_class(tree, "GlencoeWriter")
    pairs = dict_astop_to_str(find_assign(cls, "CTC_TYPES"))
    write("glencoe", STR_HDR + table_fn("glencoe_ctc_type", pairs, None))


@register("fide")
def gen_fide():
    rtree = parse(f"{REPO_PKG}/transformations/featureide_reader.py")
    rcls = find_class(rtree, "FeatureIDEReader")
    consts = {}
    for st in rcls.body:
        if isinstance(st, ast.Assign) and len(st.targets) == 1 and isinstance(st.targets[0], ast.Name) \
                and isinstance(st.value, ast.Constant) and isinstance(st.value.value, str):
            consts[st.targets[0].id] = st.value.value
    need = ["TAG_FEATUREMODEL", "TAG_STRUCT", "TAG_FEATURE", "TAG_CONSTRAINTS", "TAG_GRAPHICS",
            "TAG_DESCRIPTION", "TAG_AND", "TAG_OR", "TAG_ALT", "TAG_RULE", "TAG_VAR", "TAG_NOT",
            "TAG_IMP", "TAG_IMPN", "TAG_DISJ", "TAG_CONJ", "TAG_EQ", "ATTRIB_NAME", "ATTRIB_ABSTRACT",
            "ATTRIB_MANDATORY"]
    body = STR_HDR
    for n in need:
        if n not in consts:
            raise SystemExit(f"gen_tables: FeatureIDEReader.{n} missing")
        body += f"Definition fide_{n} : string := {coq_str(consts[n])}.\n"
    wtree = parse(f"{REPO_PKG}/transformations/featureide_writer.py")
    wcls = find_class(wtree, "FeatureIDEWriter")

    def resolve(v):
        if isinstance(v, ast.Attribute) and isinstance(v.value, ast.Name) and v.value.id == "FeatureIDEReader":
            return consts.get(v.attr)
        return None
    pairs = dict_astop_to_str(find_assign(wcls, "CTC_TYPES"), resolve)
    body += table_fn("fide_ctc_type", pairs, None)
    write("fide", body)


@register("metrics")
def gen_metrics():
    tree = parse(f"{REPO_PKG}/operations/fm_metrics.py")
    cls = find_class(tree, "FMMetrics")
    names = []
    for st in cls.body:
        if isinstance(st, ast.FunctionDef):
            for dec in st.decorator_list:
                if isinstance(dec, ast.Name) and dec.id == "metric_method":
                    names.append(st.name)
    if not names:
        raise SystemExit("gen_tables: no @metric_method found")
    names = sorted(names)          # dir() order
    body = STR_HDR + "Definition metric_methods : list string :=\n  [" + ";\n   ".join(coq_str(n) for n in names) + "].\n"
    write("metrics", body)


@register("uvl")
def gen_uvl():
    tree = parse(f"{REPO_PKG}/transformations/uvl_writer.py")

    def resolve(v):
        # ASTOperation.XOR.value
        if isinstance(v, ast.Attribute) and v.attr == "value" and isinstance(v.value, ast.Attribute) \
                and isinstance(v.value.value, ast.Name) and v.value.value.id == "ASTOperation":
            return v.value.attr
        return None
    pairs = dict_astop_to_str(find_assign(tree, "UVL_OPERATORS"), resolve)
    kw = find_assign(tree, "UVL_KEYWORDS")
    if not (isinstance(kw, ast.Call) and kw.args and isinstance(kw.args[0], ast.Set)):
        raise SystemExit("gen_tables: UVL_KEYWORDS is not frozenset({...})")
    words = []
    for e in kw.args[0].elts:
        if not (isinstance(e, ast.Constant) and isinstance(e.value, str)):
            raise SystemExit("gen_tables: UVL_KEYWORDS element is not a string literal")
        words.append(e.value)
    body = STR_HDR + table_fn("uvl_operator", pairs, None)
    body += "Definition uvl_keywords : list string :=\n  [" + "; ".join(coq_str(w) for w in sorted(words)) + "].\n"
    write("uvl", body)


@register("afm")
def gen_afm():
    wtree = parse(f"{REPO_PKG}/transformations/afm_writer.py")
    pairs = dict_astop_to_str(find_assign(wtree, "AFM_OPERATORS"))
    rtree = parse(f"{REPO_PKG}/transformations/afm_reader.py")
    rmap = find_assign(rtree, "binary_operations_map")
    if not isinstance(rmap, ast.Dict):
        raise SystemExit("gen_tables: binary_operations_map is not a dict literal")
    body = STR_HDR + table_fn("afm_operator", pairs, None)
    body += "Definition afm_operator_of_keyword (s : string) : option astop :=\n"
    for k, v in zip(rmap.keys, rmap.values):
        if not (isinstance(k, ast.Constant) and isinstance(k.value, str) and isinstance(v, ast.Attribute)
                and isinstance(v.value, ast.Name) and v.value.id == "ASTOperation"):
            raise SystemExit("gen_tables: unexpected entry in binary_operations_map")
        body += f"  if String.eqb s {coq_str(k.value)} then Some {v.attr} else\n"
    body += "  None.\n"
    write("afm", body)
