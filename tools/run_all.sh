#!/bin/bash
# tools/run_all.sh quick|thorough [ids...] — run every registered check (in parallel), summary at the end
cd "$(dirname "$0")/.."
tier=${1:-quick}; shift
ids="$@"
if [ -z "$ids" ]; then ids=$(/venv/bin/python -c "import json; print(' '.join(c['property_id'] for c in json.load(open('MANIFEST.json'))['checks']))"); fi
mkdir -p evidence/logs
make -s setup >/dev/null 2>&1
echo $ids | tr ' ' '\n' | xargs -P 8 -I{} sh -c "./check {} $tier > evidence/logs/run_{}.out 2>&1; echo {} exit=\$?"
grep -h "^\[C\|^VIOLATION\|^KNOWN" evidence/logs/run_*.out | cut -c1-220
