#!/venv/bin/python
"""prints the prompt given to a defect-hunting sub-agent for one property (only the property text goes in)"""
import json
import sys


def second_round_text(pid):
    kf = json.load(open('/verif/known_findings.json'))['findings']
    known = [f for f in kf if f['property'] == pid]
    lines = "\n".join("  - " + (f['key'].replace('-', ' ')) + (" (already repaired)" if f['status'] == 'fixed' else " (known, open)") for f in known)
    return f"""
This is a SECOND hunt for this property. Defects already reported for it (do not report these again, and avoid inputs that merely re-trigger them):
{lines if lines else '  (none)'}
Look where earlier hunts and ordinary random testing did not: SIZE (groups of more than 256 children, ten or more numbered features / constraints / attributes, nesting deeper than 256, integers beyond 2**53 or 2**64, floats with exponents, 0 / -0 / 1e16 boundaries), rare DATA (the NFC and NFD spelling of one name, non-ASCII decimal digits, blanks other than the ASCII space such as NBSP / U+2028 / U+3000, lone surrogates, names equal to structural words of the SAME document such as key names, section headers or type values, empty strings where allowed), documents a reader ACCEPTS although they are ill-formed (if the property speaks of 'whatever document a reader accepts', an accepted ill-formed document that yields a broken model is a violation), unusual but legal ORDERS of public calls on one object (a writer, reader or operation object used twice; a model edited through public setters between two calls; a subtree moved with Feature.relations / add_relation), and interactions BETWEEN formats (a model read by one reader and written by another writer, if the property covers that writer). Spend at least 60 distinct experiments before giving up."""

pid = sys.argv[1]
SECOND_ROUND = len(sys.argv) > 2 and sys.argv[2] == '2'
p = next(json.loads(l) for l in open('/verif/properties.jsonl') if json.loads(l)['id'] == pid)
wt = f"/tmp/wt_{pid}"
print(f"""You are testing a Python library for violations of one stated property. The library is flamapy's feature-model metamodel plugin (package `flamapy.metamodels.fm_metamodel`). You have your own scratch git worktree of it at `{wt}` (a detached checkout; work ONLY inside that directory; never touch /repo or /verif, and do not read anything under /verif). Run its code with `cd {wt} && PYTHONPATH={wt} /venv/bin/python ...` (the PYTHONPATH makes the worktree's copy win over the installed one; verify with `python -c "import flamapy.metamodels.fm_metamodel as m; print(m.__file__)"`). There is no network. Do NOT modify the library.

The property that is claimed to hold for the library AS IT IS:

  Title: {p['title']}
  Statement: {p['statement']}
  Quantified over: {p['quantifier']['text']}
  Code involved: {', '.join(p['anchors']['files'])}

Your task: try hard to REFUTE the claim — find concrete inputs (models built through the public constructors Feature, Relation, FeatureModel, Constraint, AST/Node, Attribute, Domain, Range; or small documents written by you and read with the library's readers; or sequences of calls) that lie inside what the property quantifies over and on which the unmodified library violates the statement. Read the code involved first and look for: unusual but legal names (blanks, quotes, backslashes, dots, non-ASCII, line breaks, tabs, names equal to keywords of the format, names differing only in letter case, empty-looking names), numeric edge cases (0, -1 meaning '*', multi-digit numbers, min > max excluded unless the property includes it), attribute values of every Python type (None, bool, int, float incl. exponent notation and -0.0, str incl. empty and strings that look like other literals, nested lists / dicts), several relations under one parent in every order, deep nesting, single-feature models, models without constraints, constraints that repeat a feature or nest an operator in itself, duplicate constraints, reading several documents in one process, calling an operation twice, mutating a model between calls, different hash seeds / locales where the property speaks about them. Prefer many small experiments over reasoning.

A finding only counts if (a) the input is inside the property's quantification (say why), (b) the expected behaviour follows from the property's statement (say which clause), and (c) you have a small stand-alone script that demonstrates it on the unmodified worktree. Defects located in other packages (flamapy.core, the ANTLR grammars, the Python standard library) count only if they surface through this library's behaviour described by the property; say where the root cause is.

Deliverables — write them into `{wt}/findings/` (create it): for each finding k = 1, 2, ...: `f<k>_demo.py` (exits 1 and prints FAIL plus what was expected / observed when the violation shows; it must run with the command above) and `f<k>.json` = {{"property": "{pid}", "clause": "...", "input": "...", "expected": "...", "observed": "...", "root_cause": "file:function and one sentence", "inside_quantification_because": "..."}}. If after a thorough search (at least 40 distinct experiments covering the categories above) you find nothing, write `findings/none.json` = {{"property": "{pid}", "experiments": ["one line per experiment family you ran and what it showed"]}}. Finish with a short report: one line per finding (or the list of experiment families if none).
{second_round_text(pid) if SECOND_ROUND else ''}""")
