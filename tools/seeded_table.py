#!/venv/bin/python
"""rewrites the table of DESIGN.md section 9.7 (between the markers) from seeded/*/meta.json"""
import json
import os
import re

VERIF = os.path.dirname(os.path.dirname(os.path.abspath(__file__)))
BEGIN, END = "<!-- seeded-table:begin -->", "<!-- seeded-table:end -->"


def main():
    rows = []
    ids = [d for d in os.listdir(os.path.join(VERIF, "seeded")) if os.path.isdir(os.path.join(VERIF, "seeded", d))]
    for d in sorted(ids, key=lambda s: (s.split("-")[0], int(s.split("-m")[1]))):
        meta = json.load(open(os.path.join(VERIF, "seeded", d, "meta.json")))
        det = meta.get("detected_by") or {}
        how = det.get("how")
        if meta.get("obsolete"):
            res = "no longer violates the property: " + meta["obsolete"]
        elif not det:
            res = "not run"
        elif det.get("exit") == 0:
            res = "**MISSED**"
        elif isinstance(how, dict) and how.get("kind") == "property-fails-on-implementation":
            res = f"concrete input: suite {how.get('suite')}, clause `{how.get('clause')}`"
        elif isinstance(how, dict):
            res = "correspondence broken (" + ", ".join(how.get("broken_obligations", [])[:3]) + "), no-failing-input-found"
        else:
            res = "violation"
        summary = re.sub(r"\s+", " ", meta.get("summary", "")).replace("|", "\\|")
        if len(summary) > 150:
            summary = summary[:147] + "..."
        rows.append(f"| {d} | {summary} | {res} |")
    table = "\n".join(["| seeded change | what was changed | quick check of its property |", "|---|---|---|"] + rows)
    p = os.path.join(VERIF, "DESIGN.md")
    s = open(p).read()
    block = f"{BEGIN}\n{table}\n{END}"
    if BEGIN in s:
        s = s[:s.index(BEGIN)] + block + s[s.index(END) + len(END):]
    else:
        s = s.rstrip("\n") + "\n\n### 9.7 Seeded changes and the check that catches each\n\n" + block + "\n"
    open(p, "w").write(s)
    print(len(rows), "rows")


if __name__ == "__main__":
    main()
