(* driver/main.ml — reads one S-expression request per line on stdin, prints one reply per line.
   All decoding/encoding of model values happens in extracted Gallina (Fmmodel.dispatch). *)
open Fmmodel

let explode (s : string) : char list = List.init (String.length s) (String.get s)
let implode (l : char list) : string =
  let b = Buffer.create 16 in List.iter (Buffer.add_char b) l; Buffer.contents b

exception Parse_error of string

let parse (s : string) : sexp =
  let n = String.length s in
  let pos = ref 0 in
  let rec skip () = while !pos < n && (s.[!pos] = ' ' || s.[!pos] = '\t') do incr pos done
  and value () : sexp =
    skip ();
    if !pos >= n then raise (Parse_error "eof");
    match s.[!pos] with
    | '(' ->
      incr pos;
      let items = ref [] in
      let rec loop () =
        skip ();
        if !pos >= n then raise (Parse_error "unclosed");
        if s.[!pos] = ')' then incr pos
        else begin items := value () :: !items; loop () end in
      loop ();
      SList (List.rev !items)
    | '"' ->
      incr pos;
      let b = Buffer.create 16 in
      let hex c = match c with
        | '0'..'9' -> Char.code c - 48 | 'a'..'f' -> Char.code c - 87
        | 'A'..'F' -> Char.code c - 55 | _ -> raise (Parse_error "hex") in
      let rec loop () =
        if !pos >= n then raise (Parse_error "unclosed string");
        let c = s.[!pos] in
        if c = '"' then incr pos
        else if c = '\\' then begin
          if !pos + 2 >= n then raise (Parse_error "escape");
          Buffer.add_char b (Char.chr (hex s.[!pos+1] * 16 + hex s.[!pos+2]));
          pos := !pos + 3; loop () end
        else begin Buffer.add_char b c; incr pos; loop () end in
      loop ();
      SStr (explode (Buffer.contents b))
    | ')' -> raise (Parse_error "unexpected )")
    | _ ->
      let start = !pos in
      while !pos < n && (match s.[!pos] with ' ' | '\t' | '(' | ')' | '"' -> false | _ -> true) do incr pos done;
      SAtom (explode (String.sub s start (!pos - start)))
  in
  let v = value () in
  skip ();
  if !pos <> n then raise (Parse_error "trailing");
  v

let rec print (b : Buffer.t) (v : sexp) : unit =
  match v with
  | SAtom a -> List.iter (Buffer.add_char b) a
  | SStr s ->
    Buffer.add_char b '"';
    List.iter (fun c ->
        let k = Char.code c in
        if k < 0x20 || k > 0x7e || c = '"' || c = '\\'
        then Buffer.add_string b (Printf.sprintf "\\%02x" k)
        else Buffer.add_char b c) s;
    Buffer.add_char b '"'
  | SList l ->
    Buffer.add_char b '(';
    List.iteri (fun i x -> if i > 0 then Buffer.add_char b ' '; print b x) l;
    Buffer.add_char b ')'

let () =
  try
    while true do
      let line = input_line stdin in
      let reply =
        try dispatch (parse line)
        with Parse_error m -> SList [SAtom (explode "parse-error"); SStr (explode m)]
           | Stack_overflow -> SList [SAtom (explode "stack-overflow")] in
      let b = Buffer.create 256 in
      print b reply;
      print_string (Buffer.contents b);
      print_newline ()
    done
  with End_of_file -> ()
