# /verif/Makefile — builds the Coq development (full .vo), extracts the model and builds the driver.
COQMK = coq/Makefile.coq
JOBS ?= 16
COQFLAGS_TIMEOUT = 3000

.PHONY: setup coq driver driver-only clean tables

setup: tables driver coq

tables:
	/venv/bin/python tools/gen_tables.py all
	-/venv/bin/python tools/py2coq.py all

$(COQMK): coq/_CoqProject
	cd coq && coq_makefile -f _CoqProject -o Makefile.coq

coq: $(COQMK)
	cd coq && timeout $(COQFLAGS_TIMEOUT) $(MAKE) -f Makefile.coq -j$(JOBS)

# only what the extracted model needs (no Proofs/, no Props/): a broken proof never stops the model
coq/fmmodel.ml: $(COQMK) $(wildcard coq/Base/*.v coq/Gen/*.v coq/Model/*.v coq/Format/*.v coq/Extract/*.v)
	cd coq && timeout $(COQFLAGS_TIMEOUT) $(MAKE) -f Makefile.coq -j$(JOBS) Extract/Extract.vo
	touch coq/fmmodel.ml

driver/fmdriver: coq/fmmodel.ml driver/main.ml
	mkdir -p driver/_build
	cp coq/fmmodel.ml coq/fmmodel.mli driver/main.ml driver/_build/
	cd driver/_build && ocamlfind ocamlopt -w -a fmmodel.mli fmmodel.ml main.ml -o ../fmdriver 2>&1 | tail -5

driver-only: driver/fmdriver
driver: driver/fmdriver

clean:
	-cd coq && $(MAKE) -f Makefile.coq clean
	rm -rf driver/_build driver/fmdriver coq/fmmodel.ml coq/fmmodel.mli coq/Makefile.coq coq/Makefile.coq.conf
