# /verif/Makefile — builds the Coq development (full .vo), extracts the model and builds the driver.
COQMK = coq/Makefile.coq
JOBS ?= 16

.PHONY: setup coq driver clean props

setup: coq driver

$(COQMK): coq/_CoqProject
	cd coq && coq_makefile -f _CoqProject -o Makefile.coq

coq: $(COQMK)
	cd coq && timeout 3000 $(MAKE) -f Makefile.coq -j$(JOBS)

driver: coq
	mkdir -p driver/_build
	cp coq/fmmodel.ml coq/fmmodel.mli driver/main.ml driver/_build/
	cd driver/_build && ocamlfind ocamlopt -O3 -w -a fmmodel.mli fmmodel.ml main.ml -o ../fmdriver 2>/dev/null || \
	  (cd driver/_build && ocamlfind ocamlopt -w -a fmmodel.mli fmmodel.ml main.ml -o ../fmdriver)

clean:
	-cd coq && $(MAKE) -f Makefile.coq clean
	rm -rf driver/_build driver/fmdriver coq/fmmodel.ml coq/fmmodel.mli
