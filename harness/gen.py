"""Generators.  Every random choice derives from one random.Random(seed)."""
import itertools
import random
from spec import F, R, A, T, OP

LOGICAL = ["REQUIRES", "EXCLUDES", "AND", "OR", "XOR", "IMPLIES", "NOT", "EQUIVALENCE"]
COMPARISON = ["EQUALS", "LOWER", "GREATER", "LOWER_EQUALS", "GREATER_EQUALS", "NOT_EQUALS"]
ARITH = ["ADD", "SUB", "MUL", "DIV"]
AGGR = ["SUM", "AVG", "LEN", "FLOOR", "CEIL"]

NAME_CLASSES = {
    "plain": ["A", "B", "C", "D", "E", "Feat", "feature_x", "X1", "y2z", "Root", "Wifi", "GPS",
              "Screen", "Basic", "HD", "Camera", "MP3", "abc", "Q", "Z9"],
    "space": ["my feat", "a b c", " lead", "trail ", "two  spaces",
              # blanks that str.strip / str.split / str.splitlines treat specially
              "Size\u00a0", "\u2028Line", "Wide\u3000", "Pay\u2028ment", "x\u0085y", "Tab\u2009le", "\u00a0"],
    "punct": ["a-b", "x+y", "p/q", "k:v", "semi;colon", "hash#1", "par(en)", "br[ack]", "cur{ly}",
              "a,b", "eq=1", "bang!", "q?", "at@", "star*", "pipe|", "amp&", "pct%", "tilde~"],
    "keyword": ["or", "and", "not", "features", "constraints", "Integer", "Boolean", "String",
                "Real", "true", "false", "sum", "avg", "len", "mandatory", "optional",
                "alternative", "namespace", "imports", "include", "cardinality", "abstract",
                "NOT", "AND", "OR", "XOR", "IMPLIES", "REQUIRES", "EXCLUDES", "EQUIVALENCE", "IFF",
                "requires", "excludes", "implies", "iff", "xor", "floor", "ceil"],
    "lead": ["1abc", "9", "_x", "_", "0start", "__init__", "2024", "\u0663\u0662", "\u00b2", "10\u00b2", "007"],
    "nonascii": ["ñandú", "特徴", "Größe", "émoji😀", "αβγ", "naïve", "Ω",
                 # the two spellings (NFC / NFD) of one word, compatibility characters, conjoining jamo
                 "Cr\u00e8me", "Cre\u0300me", "cafe\u0301", "\u212b", "\u2126", "\u1100\u1161",
                 # characters whose UTF-8 form contains the bytes 0x85 / 0xa0 / 0x0a-looking continuation bytes
                 "\u0105", "\u00c5", "\u0445\u043b\u0435\u0431", "\u0120",
                 # decimal digits that are not ASCII (str.isdigit / \d / int() accept them)
                 "Room\u0663", "v\uff11", "size\u0968", "x\u00b2"],
    "quote": ["it's", "say\"hi\"", "a.b", "'quoted'", "\"dq\"", ".", "end.", "'"],
    "special": ["<a&b>", "a>b", "&amp;", "back\\slash", "tab\there", "new\nline", "]]>", "<!--"],
    "long": ["L" * 70, "x" * 300],
}


class Gen:
    def __init__(self, seed):
        self.rng = random.Random(seed)
        self.stats = {}

    def count(self, key, sub=None):
        d = self.stats.setdefault(key, {})
        d[sub] = d.get(sub, 0) + 1

    # ------------------------------------------------------------------ names
    def names(self, n, classes=("plain",), weights=None):
        """n distinct names drawn from the given classes"""
        rng = self.rng
        out, seen = [], set()
        tries = 0
        while len(out) < n:
            cls = rng.choices(list(classes), weights=weights)[0] if weights else rng.choice(list(classes))
            base = rng.choice(NAME_CLASSES[cls])
            tries += 1
            if base in seen or tries > 3 * n:
                # derive a fresh variant keeping the class flavour
                base = base + str(rng.randrange(1000)) if cls != "long" else base + str(len(out))
            if base in seen:
                continue
            seen.add(base)
            out.append(base)
            self.count("name_class", cls)
        return out

    # ------------------------------------------------------------------ relation cards
    def card(self, k, kinds):
        """a (min,max) for k children from the allowed kinds"""
        rng = self.rng
        options = []
        if k == 1:
            if "mandatory" in kinds:
                options.append(("mandatory", 1, 1))
            if "optional" in kinds:
                options.append(("optional", 0, 1))
            if "zero" in kinds:
                options.append(("zero", 0, 0))
            if "star" in kinds and rng.random() < 0.5:
                options.append(("star1", rng.randint(0, 1), -1))      # a one-member group [0..*] / [1..*]
        else:
            if "alternative" in kinds:
                options.append(("alternative", 1, 1))
            if "or" in kinds:
                options.append(("or", 1, k))
            if "mutex" in kinds:
                options.append(("mutex", 0, 1))
            if "card" in kinds:
                a = rng.randint(0, k)
                b = rng.randint(a, k)
                options.append(("card", a, b))
            if "nn" in kinds:
                n = rng.randint(0, k)
                options.append(("nn", n, n))
            if "star" in kinds:
                options.append(("star", rng.randint(0, k), -1))
            if "bad" in kinds:
                options.append(("bad", rng.randint(-1, k + 1), rng.randint(-1, k + 2)))
        if not options:
            options.append(("mandatory", 1, 1) if k == 1 else ("or", 1, k))
        kind, a, b = rng.choice(options)
        self.count("rel_kind", kind)
        return a, b

    # ------------------------------------------------------------------ trees
    def tree(self, n, names=None, kinds=("mandatory", "optional", "alternative", "or", "mutex", "card"),
             max_group=4, typed=False, fcard=False, abstract=True, attrs=None, single_group=False,
             name_classes=("plain",), wide=False):
        """random tree with n features.
        single_group: a feature has either only single-child relations or exactly one group
        (optionally plus mandatory children when single_group == 'glencoe')."""
        rng = self.rng
        if names is None:
            names = self.names(n, name_classes)
        it = iter(names)
        root = self._feat(next(it), typed, fcard, abstract, attrs, root=True)
        open_feats = [root]
        remaining = n - 1
        while remaining > 0:
            parent = rng.choice(open_feats)
            if single_group and parent["rels"]:
                has_group = any(len(r["children"]) > 1 for r in parent["rels"])
                if has_group and single_group is True:
                    open_feats.remove(parent)
                    if not open_feats:
                        open_feats = [f for f in self._all(root) if not f["rels"]]
                    continue
            want_group = remaining >= 2 and rng.random() < 0.45 and any(
                k in kinds for k in ("alternative", "or", "mutex", "card", "nn", "star", "bad"))
            if single_group and parent["rels"]:
                has_group = any(len(r["children"]) > 1 for r in parent["rels"])
                if single_group is True:
                    want_group = False
                elif has_group:
                    want_group = False
            k = rng.randint(2, min(max_group, remaining)) if want_group else 1
            children = [self._feat(next(it), typed, fcard, abstract, attrs) for _ in range(k)]
            if single_group == "glencoe" and k == 1 and any(len(r["children"]) > 1 for r in parent["rels"]):
                a, b = 1, 1
                self.count("rel_kind", "mandatory")
            else:
                a, b = self.card(k, kinds)
            parent["rels"].append(R(a, b, children))
            open_feats.extend(children)
            remaining -= k
            if rng.random() < 0.15 and len(open_feats) > 1:
                open_feats.remove(parent)
        if wide and rng.random() < 0.15:
            # a wide group whose bounds have different numbers of digits ([2..10], [9..12], ...)
            leaf = rng.choice([f for f in self._all(root) if not f["rels"]])
            k = rng.randint(10, 13)
            mk = wide if callable(wide) else (lambda l, j: f"{l}_w{j}")
            new = [mk(leaf["name"], j) for j in range(k)]
            if not set(new) & {f["name"] for f in self._all(root)}:
                kids = [self._feat(x, typed, False, abstract, attrs) for x in new]
                leaf["rels"].append(R(rng.randint(2, 9), rng.randint(10, k), kids))
                self.count("rel_kind", "wide-multi-digit-bounds")
        self.count("tree_size", min(n, 50) if n < 50 else "50+")
        return root

    def _all(self, f):
        yield f
        for r in f["rels"]:
            for c in r["children"]:
                yield from self._all(c)

    def _feat(self, name, typed, fcard, abstract, attrs, root=False):
        rng = self.rng
        ty = "Boolean"
        if typed and rng.random() < 0.4:
            ty = rng.choice(["Integer", "Real", "String", "Boolean"])
        cmin, cmax = 1, 1
        if fcard and not root and rng.random() < 0.3:
            cmin = rng.randint(0, 3)
            cmax = rng.choice([rng.randint(max(cmin, 1), 5), -1])      # -1: the open upper bound [a..*]
        ab = bool(abstract and rng.random() < 0.25)
        al = []
        if attrs:
            for an in rng.sample(attrs["names"], rng.randint(0, min(3, len(attrs["names"])))):
                al.append(A(an, default=self.value(attrs.get("values", ("int",)))))
        return F(name, [], ab, ty, cmin, cmax, al)

    def value(self, kinds, depth=0):
        rng = self.rng
        k = rng.choice(list(kinds))
        self.count("attr_value", k)
        if k == "none":
            return None
        if k == "bool":
            return rng.random() < 0.5
        if k == "int":
            return rng.choice([0, 0, 1, -1, 7, 42, -300, 10**6, 2**70, 2**53 + 1, 10**22 + 7, 2**62 - 1, -(2**53) - 1])
        if k == "float":
            return rng.choice([0.5, 1.25, -2.75, 3.0, 100.125, 0.1, -0.001, 12345.678, 0.0, 1.0])
        if k == "str":
            return rng.choice(["x", "hello world", "ñ", "a-b", "UPPER", "with \"dq\"", "1", "true", "True", "False", "None",
                               "null", "0", "1.0", "", "[1]", "C:\\new", "a\\nb\\t", "back\\slash\\",
                               "cafe\u0301", "\u212b ngstrom", "\u1100\u1161", "Ω\u2126"])
        if k == "list":
            if depth > 1:
                return [1, 2]
            sub = [x for x in kinds if x not in ("none",)]
            return [self.value(sub, depth + 1) for _ in range(rng.randint(1, 3))]
        if k == "map":
            if depth > 1:
                return {"k": 1}
            sub = [x for x in kinds if x not in ("none",)]
            return {f"k{i}": self.value(sub, depth + 1) for i in range(rng.randint(1, 3))}
        raise ValueError(k)

    # ------------------------------------------------------------------ constraint trees
    def ctc(self, names, ops=LOGICAL, depth=3, p_leaf=0.3):
        rng = self.rng
        if depth == 0 or rng.random() < p_leaf:
            return T(rng.choice(names))
        op = rng.choice(ops)
        self.count("ctc_op", op)
        if op == "NOT":
            return OP(op, self.ctc(names, ops, depth - 1, p_leaf))
        return OP(op, self.ctc(names, ops, depth - 1, p_leaf), self.ctc(names, ops, depth - 1, p_leaf))

    def ctcs(self, names, n, ops=LOGICAL, depth=3, simple_bias=0.4):
        rng = self.rng
        out = []
        for i in range(n):
            if rng.random() < simple_bias and len(names) >= 2:
                a, b = rng.sample(names, 2)
                form = rng.randrange(7)
                self.count("ctc_simple_form", form)
                node = [OP("REQUIRES", T(a), T(b)), OP("IMPLIES", T(a), T(b)),
                        OP("OR", OP("NOT", T(a)), T(b)), OP("OR", T(b), OP("NOT", T(a))),
                        OP("EXCLUDES", T(a), T(b)), OP("IMPLIES", T(a), OP("NOT", T(b))),
                        OP("OR", OP("NOT", T(a)), OP("NOT", T(b)))][form]
            else:
                node = self.ctc(names, ops, depth)
            out.append((f"ctc{i}", node))
        return out

    def model(self, n, n_ctcs=None, ctc_ops=LOGICAL, ctc_depth=3, **kw):
        root = self.tree(n, **kw)
        names = [f["name"] for f in self._all(root)]
        if n_ctcs is None:
            n_ctcs = self.rng.choice([0, 0, 1, 2, 3])
        return dict(root=root, ctcs=self.ctcs(names, n_ctcs, ctc_ops, ctc_depth))


# ---------------------------------------------------------------------- exhaustive enumeration
def compositions(n):
    """ordered partitions of n children into consecutive blocks"""
    if n == 0:
        yield []
        return
    for first in range(1, n + 1):
        for rest in compositions(n - first):
            yield [first] + rest


def cards_for(k, card_set):
    if card_set == "kinds":
        if k == 1:
            return [(1, 1), (0, 1)]
        return sorted({(1, 1), (1, k), (0, 1), (0, k), (k, k), (2, k)} - {(2, 1)})
    if card_set == "all":
        return [(a, b) for a in range(0, k + 1) for b in range(a, k + 1)]
    raise ValueError(card_set)


def shapes(n):
    """all unlabeled ordered tree shapes with n nodes, as nested lists of block lists:
    a node = list of relations, a relation = list of child nodes"""
    if n == 1:
        yield []
        return
    # distribute n-1 descendants over ordered children sequences grouped into relations
    for nchildren in range(1, n):
        for sizes in _sized(n - 1, nchildren):
            for kids in itertools.product(*[list(shapes(s)) for s in sizes]):
                for comp in compositions(nchildren):
                    rels, i = [], 0
                    for b in comp:
                        rels.append(list(kids[i:i + b]))
                        i += b
                    yield rels


def _sized(total, parts):
    if parts == 1:
        yield [total]
        return
    for first in range(1, total - parts + 2):
        for rest in _sized(total - first, parts - 1):
            yield [first] + rest


def all_trees(n, card_set="kinds"):
    """all trees with n features: every shape x every relation partition x cards from card_set.
    names F0.. in pre-order"""
    for shape in shapes(n):
        slots = []

        def collect(node):
            for rel in node:
                slots.append(len(rel))
                for ch in rel:
                    collect(ch)
        collect(shape)
        for cards in itertools.product(*[cards_for(k, card_set) for k in slots]):
            counter = itertools.count()
            ci = iter(cards)

            def build(node):
                f = F(f"F{next(counter)}")
                for rel in node:
                    a, b = next(ci)
                    f["rels"].append(R(a, b, [build(ch) for ch in rel]))
                return f
            yield build(shape)


def all_ctc_trees(names, ops, depth):
    """all constraint trees up to the given depth over names and ops"""
    if depth == 0:
        for n in names:
            yield T(n)
        return
    smaller = list(all_ctc_trees(names, ops, depth - 1))
    seen = set(smaller)
    yield from smaller
    for op in ops:
        if op == "NOT":
            for a in smaller:
                t = OP(op, a)
                if t not in seen:
                    seen.add(t)
                    yield t
        else:
            for a in smaller:
                for b in smaller:
                    t = OP(op, a, b)
                    if t not in seen:
                        seen.add(t)
                        yield t


# ---------------------------------------------------------------------- targeted constraint streams
def nest_ctcs(ops=LOGICAL, extra_bins=()):
    """every operator directly inside every operator, on either side (and under NOT), over three names"""
    A, B, C = T("A"), T("B"), T("C")
    bins = [o for o in ops if o != "NOT"] + list(extra_bins)
    for o2 in bins:
        yield OP("NOT", OP(o2, A, B))
        for o1 in bins:
            yield OP(o1, OP(o2, A, B), C)
            yield OP(o1, A, OP(o2, B, C))
            yield OP(o1, OP("NOT", A), OP(o2, B, OP("NOT", C)))
    yield OP("NOT", OP("NOT", A))
    yield OP("NOT", OP("NOT", OP("NOT", A)))
    if "AND" in bins and "IMPLIES" in bins:
        # two implications sharing names: an equivalence written out, and three look-alikes that are not
        yield OP("AND", OP("IMPLIES", A, B), OP("IMPLIES", B, A))
        yield OP("AND", OP("IMPLIES", A, B), OP("IMPLIES", C, A))
        yield OP("AND", OP("IMPLIES", A, B), OP("IMPLIES", B, C))
        yield OP("AND", OP("IMPLIES", A, B), OP("IMPLIES", A, C))
    if "AND" in bins and "IMPLIES" in bins and "OR" in bins:
        # right-nested chains (readers build left-nested ones): six conjuncts, a fan-out of three, a fan-in of three
        imps = [OP("IMPLIES", A, B), OP("IMPLIES", B, C), OP("IMPLIES", C, A), OP("IMPLIES", A, C), OP("IMPLIES", B, A),
                OP("IMPLIES", C, B)]
        chain = imps[-1]
        for t in reversed(imps[:-1]):
            chain = OP("AND", t, chain)
        yield chain
        yield OP("IMPLIES", A, OP("AND", B, OP("AND", C, OP("NOT", A))))
        yield OP("IMPLIES", A, OP("AND", B, OP("AND", C, B)))
        yield OP("IMPLIES", OP("OR", A, OP("OR", B, C)), OP("NOT", A))
        yield OP("IMPLIES", OP("OR", A, OP("OR", B, OP("NOT", C))), C)
    for o1 in bins:
        yield OP(o1, A, B)
        yield OP(o1, OP("NOT", A), B)
        yield OP(o1, A, OP("NOT", B))
        yield OP(o1, B, A)
        yield OP(o1, A, A)


def free_model(ctcs, names=("A", "B", "C"), root="R"):
    """a tree that leaves the named features free (optional children of the root)"""
    base = F(root, [R(0, 1, [F(n)]) for n in names])
    return dict(root=base, ctcs=[(f"c{i}", c) for i, c in enumerate(ctcs)])


def nest_models(ops=LOGICAL, chunk=1):
    """free models carrying the nest constraints, [chunk] constraints per model"""
    buf = []
    for t in nest_ctcs(ops):
        buf.append(t)
        if len(buf) == chunk:
            yield free_model(buf)
            buf = []
    if buf:
        yield free_model(buf)


def case_twin_models(ops=("REQUIRES", "EXCLUDES", "IMPLIES", "OR", "AND"), names=("Xa", "xa", "Yb", "yb"),
                     same_name=True, cardinal=True):
    """same-shaped constraints over names differing only in letter case; the same constraint twice;
    one constraint naming two case twins; different constraints carrying one and the same name (a constraint's
    name is a label, not a key: same_name=False for the one format that keys its constraints by name)"""
    a, a2, b, b2 = names
    yield from big_models(cardinal, "IMPLIES" if "IMPLIES" in ops else ops[0])
    for o in ops:
        if same_name:
            m = free_model([OP(o, T(a), T(b)), OP(o, T(b), T(b2)), OP(o, T(b2), T(a))], names)
            m["ctcs"] = [("rule", c) for _n, c in m["ctcs"]]
            yield m
        yield free_model([OP(o, T(a), T(b)), OP(o, T(a2), T(b2))], names)
        yield free_model([OP(o, T(a), T(b)), OP(o, T(a), T(b))], names)
        yield free_model([OP(o, T(a), T(a2))], names)


def big_models(cardinal=True, op="IMPLIES"):
    """what only shows with SIZE: groups of more than 256 children (CPython shares int objects up to 256), identifiers
    numbered past 9 (F1 is a prefix of F10; "Constraint 10" sorts before "Constraint 2"), a branching-factor average above
    10 with two decimals, names that differ only in the spelling of a number"""
    kids = [F(f"K{j}") for j in range(300)]
    kids[0]["rels"].append(R(0, 1, [F("Opt")]))
    yield dict(root=F("Big", [R(1, 300, kids)]), ctcs=[])
    if cardinal:
        kids = [F(f"S{j}") for j in range(257)]
        kids[3]["rels"].append(R(1, 1, [F("Deep")]))
        kids[5]["rels"].append(R(1, 1, [F("Xa"), F("Xb")]))
        yield dict(root=F("All", [R(257, 257, kids)]), ctcs=[])
    names = [f"F{j}" for j in range(12)]
    ctcs = [(f"Constraint {j}", OP(op, T(names[(j + 10) % 12]), T(names[(j + 1) % 12]))) for j in range(12)]
    yield dict(root=F("Num", [R(0, 1, [F(n)]) for n in names]), ctcs=ctcs)
    branches = [F(f"B{j}", [R(0, 1, [F(f"B{j}c{i}")]) for i in range(k)]) for j, k in enumerate((13, 13, 12))]
    yield dict(root=F("Avg", [R(1, 1, [b]) for b in branches]), ctcs=[])
    yield dict(root=F("Nat", [R(1, 3, [F("F7", [R(0, 1, [F("Ch1")]), R(0, 1, [F("Ch01")])]), F("F07"), F("F007")])]),
               ctcs=[("c0", OP("EXCLUDES", T("F7"), T("F07")))])
