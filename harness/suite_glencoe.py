"""Suites W-glencoe / R-glencoe and the C08 oracle (Glencoe round trip)."""
import copy
import itertools
import json

import fmt
import gen
import spec
import sx
from sx import tag
from suite_json import impl_write, same_spec, ALL_NAMES
from suite_k import ev, atoms_of


def glencoe_model(g, n):
    """a model in the Glencoe fragment: a feature has single mandatory/optional children, or one
    alternative / or / mutex / [a,b] group optionally accompanied by mandatory children"""
    rng = g.rng
    names = iter(g.names(n + 8, ALL_NAMES))
    root = spec.F(next(names), abstract=False)
    budget = [n - 1]

    def grow(f, depth):
        if budget[0] <= 0 or depth > 6:
            return
        style = rng.choice(["plain", "plain", "group"]) if budget[0] >= 2 else "plain"
        rels = []
        if style == "plain":
            k = min(budget[0], rng.randint(1, 3))
            for _ in range(k):
                c = spec.F(next(names))
                budget[0] -= 1
                mand = rng.random() < 0.5
                g.count("rel_kind", "mandatory" if mand else "optional")
                rels.append(spec.R(1 if mand else 0, 1, [c]))
        else:
            k = min(budget[0], rng.randint(2, 4))
            kids = [spec.F(next(names)) for _ in range(k)]
            budget[0] -= k
            kind = rng.choice(["alternative", "or", "mutex", "card", "nn", "zero-to-n"])
            g.count("rel_kind", kind)
            if kind == "alternative":
                a, b = 1, 1
            elif kind == "or":
                a, b = 1, k
            elif kind == "mutex":
                a, b = 0, 1
            elif kind == "zero-to-n":
                a, b = 0, k          # [0..n] over n members: every product of {0,1} x {1,n} that is not a named kind
            elif kind == "nn":
                a = b = rng.randint(2, k) if k >= 2 else 1
            else:
                a = rng.randint(0, k)
                b = rng.randint(max(a, 1), k)
            rels.append(spec.R(a, b, kids))
            for _ in range(rng.randint(0, 2)):
                if budget[0] > 0:
                    budget[0] -= 1
                    rels.append(spec.R(1, 1, [spec.F(next(names))]))
                    g.count("rel_kind", "mandatory-beside-group")
        rng.shuffle(rels)
        f["rels"] = rels
        for r in rels:
            for c in r["children"]:
                if rng.random() < 0.6:
                    grow(c, depth + 1)
    grow(root, 0)
    while budget[0] > 0:
        leaves = [f for f in spec.spec_features(root) if not f["rels"]]
        before = budget[0]
        grow(rng.choice(leaves), 0)
        if budget[0] == before:
            break
    if rng.random() < 0.15:
        # a wide group whose bounds have different numbers of digits
        leaf = rng.choice([f for f in spec.spec_features(root) if not f["rels"]])
        k = rng.randint(10, 13)
        leaf["rels"].append(spec.R(rng.randint(2, 9), rng.randint(10, k), [spec.F(f"{leaf['name']}_w{j}") for j in range(k)]))
        g.count("rel_kind", "wide-multi-digit-bounds")
    fnames = [f["name"] for f in spec.spec_features(root)]
    ctcs = g.ctcs(fnames, rng.choice([0, 1, 2, 3]), gen.LOGICAL, 3)
    g.count("tree_size", len(fnames))
    return dict(root=root, ctcs=ctcs)


def glencoe_norm(m):
    """what the property allows to change: children sorted by name, mandatory-beside-group relations first"""
    def nf(f):
        g = spec.F(f["name"])
        groups = [r for r in f["rels"] if len(r["children"]) > 1]
        singles = [r for r in f["rels"] if len(r["children"]) == 1]
        if not groups:
            kids = sorted(singles, key=lambda r: r["children"][0]["name"])
            g["rels"] = [spec.R(r["min"], r["max"], [nf(r["children"][0])]) for r in kids]
        else:
            grp = groups[0]
            kids = sorted(singles, key=lambda r: r["children"][0]["name"])
            g["rels"] = [spec.R(1, 1, [nf(r["children"][0])]) for r in kids]
            g["rels"].append(spec.R(grp["min"], grp["max"],
                                    [nf(c) for c in sorted(grp["children"], key=lambda c: c["name"])]))
        return g
    return dict(root=nf(m["root"]), ctcs=m["ctcs"])


def equivalent(a, b):
    names = sorted(set(atoms_of(a)) | set(atoms_of(b)))
    if len(names) > 12:
        names = names[:12]
    for bits in itertools.product((False, True), repeat=len(names)):
        env = dict(zip(names, bits))
        try:
            if ev(a, env) != ev(b, env):
                return False
        except (KeyError, TypeError):      # a name of one side only, or an operator with a missing operand
            return False
    return True


def run(ctx):
    from flamapy.metamodels.fm_metamodel.transformations import GlencoeWriter, GlencoeReader
    w = ctx.suite("W-glencoe")
    r = ctx.suite("R-glencoe")
    g = ctx.gen
    sc = fmt.Scratch()
    try:
        n_cases = 150 if ctx.tier == "quick" else 2500
        sizes = [1, 2, 3, 5, 8, 13] if ctx.tier == "quick" else [1, 2, 5, 12, 30, 80]
        def models():
            for i in range(n_cases):
                yield glencoe_model(g, g.rng.choice(sizes))
            yield from gen.nest_models(gen.LOGICAL, chunk=4)
            yield from gen.case_twin_models(same_name=False)
        for m in models():
            req = sx.dumps(tag("glencoe_write", spec.fm_sx(m)))
            mrep = ctx.model.call_raw(req)
            st, ret, data, after, path = impl_write(sc, m, GlencoeWriter, "gfm.json")
            if st[0] == "ok":
                doc = json.loads(ret)
                irep = sx.dumps(tag("ok", spec.aval_sx(doc)))
            else:
                doc = None
                irep = sx.dumps(tag("err", sx.Sym(st[1])))
            w.record("fragment", req, irep, mrep, nontrivial=spec.spec_size(m["root"]) >= 2)
            if not same_spec(after, m):
                w.oracle_fail("fragment", req, "writer-modified-model", "")
            if doc is None:
                w.oracle_fail("fragment", req, "writer-raises", st[1])
                continue
            if data.decode("utf-8") != ret:
                w.oracle_fail("fragment", req, "returned-differs-from-file", "")
            rreq = sx.dumps(tag("glencoe_read", spec.aval_sx(doc)))
            mread = ctx.model.call_raw(rreq)
            holder = {}

            def read_file():
                holder["fm"] = fmt.read_twice(GlencoeReader, path)
                return holder["fm"]
            iread = sx.dumps(fmt.result_pfm(read_file))
            r.record("writer-output", rreq, iread, mread)
            if "fm" not in holder:
                r.oracle_fail("writer-output", req, "reader-raises-on-writer-output", iread[:200])
                continue
            cur = holder["fm"]
            back = spec.dump_fm(cur)
            norm = glencoe_norm(m)
            diffs = fmt.spec_equal(norm, back, attrs=False, abstract=False, types=False)
            if len(back["ctcs"]) != len(m["ctcs"]):
                diffs.append(f"{len(back['ctcs'])} constraints instead of {len(m['ctcs'])}")
            else:
                by_name = dict(back["ctcs"])
                for name, node in m["ctcs"]:
                    if name not in by_name:
                        diffs.append(f"constraint {name} missing")
                    elif not equivalent(node, by_name[name]):
                        diffs.append(f"constraint {name} not equivalent")
            if diffs:
                r.oracle_fail("writer-output", req, "roundtrip:same-model", "; ".join(diffs[:4]))
            for fail in fmt.graph_wf(cur, written=fmt.written_names(m)):
                r.oracle_fail("writer-output", req, "graph:" + fail[0], fail[1])
            text = ret
            for cyc in range(2, 4):
                p2 = sc.path("gfm.json")
                t2 = GlencoeWriter(p2, cur).transform()
                if t2 != text:
                    r.oracle_fail("writer-output", req, f"cycle{cyc}:text-differs", "")
                    break
                cur = GlencoeReader(p2).transform()
                if not same_spec(spec.dump_fm(cur), back):
                    r.oracle_fail("writer-output", req, f"cycle{cyc}:model-differs", "")
                    break
            for c_, d_ in fmt.exchange_cycles(GlencoeWriter, GlencoeReader, sc.path("gfm.json"), cur, back, same_spec):
                r.oracle_fail("writer-output", req, c_, d_)
        for label, doc in documents(ctx):
            rreq = sx.dumps(tag("glencoe_read", spec.aval_sx(doc)))
            mread = ctx.model.call_raw(rreq)
            path = sc.path("gfm.json")
            with open(path, "w", encoding="utf-8") as fh:
                json.dump(doc, fh)
            holder = {}

            def read_file():
                holder["fm"] = fmt.read_twice(GlencoeReader, path)
                return holder["fm"]
            iread = sx.dumps(fmt.result_pfm(read_file))
            r.record(label, rreq, iread, mread)
            if "fm" in holder:
                for fail in fmt.graph_wf(holder["fm"]):
                    r.oracle_fail(label, rreq, "graph:" + fail[0], fail[1])
                # the tree of the document, feature by feature: none is lost, none is invented
                want, stack = [], [doc["tree"]]
                while stack:
                    node = stack.pop()
                    want.append(doc["features"][node["id"]]["name"])
                    stack.extend(node.get("children", []))
                got = [f.name for f in holder["fm"].get_features()]
                if sorted(got) != sorted(want):
                    r.oracle_fail(label, rreq, "graph:features-of-the-document",
                                  f"document tree {sorted(want)[:8]}, model {sorted(got)[:8]}")
    finally:
        sc.close()


def run_third_party(ctx):
    """C09: third-party shaped Glencoe documents denote the normal form of the model they were made from"""
    from flamapy.metamodels.fm_metamodel.transformations import GlencoeReader
    r = ctx.suite("R-glencoe-3p")
    sc = fmt.Scratch()
    try:
        for label, doc, m in documents(ctx, with_model=True):
            rreq = sx.dumps(tag("glencoe_read", spec.aval_sx(doc)))
            mread = ctx.model.call_raw(rreq)
            path = sc.path("gfm.json")
            with open(path, "w", encoding="utf-8") as fh:
                json.dump(doc, fh)
            holder = {}

            def read_file():
                holder["fm"] = fmt.read_twice(GlencoeReader, path)
                return holder["fm"]
            iread = sx.dumps(fmt.result_pfm(read_file))
            r.record(label, rreq, iread, mread)
            if label != "third-party":
                continue
            if "fm" not in holder:
                r.oracle_fail(label, rreq, "reader-raises-on-valid-document", iread[:200])
                continue
            back = spec.dump_fm(holder["fm"])
            diffs = fmt.spec_equal(glencoe_norm(m), back, attrs=False, abstract=False, types=False)
            by_name = dict(back["ctcs"])
            for name, node in m["ctcs"]:
                if name not in by_name or not equivalent(node, by_name[name]):
                    diffs.append(f"constraint {name}")
            if diffs:
                r.oracle_fail(label, rreq, "denotes:same-model", "; ".join(diffs[:3]))
            for fail in fmt.graph_wf(holder["fm"], written=fmt.written_names(m)):
                r.oracle_fail(label, rreq, "graph:" + fail[0], fail[1])
    finally:
        sc.close()


def documents(ctx, with_model=False):
    """third-party shaped documents (n-ary terms, 'optional' flags on grouped children and on the
    root, extra keys) and a malformed stream"""
    g = ctx.gen
    rng = g.rng
    from flamapy.metamodels.fm_metamodel.transformations.glencoe_writer import _to_json
    n = 60 if ctx.tier == "quick" else 800
    for i in range(n):
        m = glencoe_model(g, rng.choice([2, 4, 7]))
        doc = json.loads(json.dumps(_to_json(spec.build_fm(m))))
        d = copy.deepcopy(doc)

        def flatten(c):
            if c["type"] in ("AndTerm", "OrTerm", "XorTerm"):
                ops = []
                for idx, o in enumerate(c["operands"]):
                    o = flatten(o)
                    if idx == 0 and o["type"] == c["type"] and rng.random() < 0.7:
                        ops.extend(o["operands"])
                    else:
                        ops.append(o)
                c["operands"] = ops
            elif c["type"] != "FeatureTerm":
                c["operands"] = [flatten(o) for o in c["operands"]]
            return c
        for c in d["constraints"].values():
            flatten(c)
        for f in d["features"].values():
            f["note"] = rng.choice(["", "some note"])
            f["extra"] = 1
        d["features"][d["tree"]["id"]]["optional"] = rng.random() < 0.5     # the root's flag is irrelevant
        if "constraints" in d and not d["constraints"] and rng.random() < 0.5:
            d.pop("constraints")          # a missing section means no constraints
        yield ("third-party", d, m) if with_model else ("third-party", d)
        # the 'optional' entries as values that are not JSON booleans: the reader takes their truth value
        # (`if optional:`); compared with the model only
        d = copy.deepcopy(doc)
        for f in d["features"].values():
            if "optional" in f and rng.random() < 0.6:
                f["optional"] = rng.choice([1, 2, "yes", "false", [0], {"k": 0}, 0.5] if f["optional"]
                                           else [0, "", [], {}, None, 0.0])
        g.count("glencoe_truthy_flags")
        yield ("truthy-flags", d, m) if with_model else ("truthy-flags", d)
        # a group most of whose members are mandatory: exactly one optional member left, or none at all
        d = copy.deepcopy(doc)
        groups = []
        stack = [d["tree"]]
        while stack:
            node = stack.pop()
            kids = node.get("children", [])
            stack.extend(kids)
            if d["features"][node["id"]]["type"] != "FEATURE" and kids:
                groups.append(kids)
        if groups:
            kids = rng.choice(groups)
            opt = [k for k in kids if d["features"][k["id"]]["optional"]]
            keep = rng.sample(opt, min(len(opt), rng.choice([0, 1])))
            for k in opt:
                if k not in keep:
                    d["features"][k["id"]]["optional"] = False
            g.count("glencoe_group_flags", f"{len(keep)} optional of {len(kids)}")
            yield ("group-flags", d, m) if with_model else ("group-flags", d)
        d = copy.deepcopy(doc)
        kind = rng.randrange(11)
        g.count("glencoe_malformed", kind)
        ids = list(d["features"])
        if kind == 0:
            d.pop(rng.choice(["features", "tree", "constraints"]))
        elif kind == 1:
            d["features"].pop(rng.choice(ids))
        elif kind == 2:
            d["features"][rng.choice(ids)].pop(rng.choice(["name", "type", "optional"]))
        elif kind == 3 and d["constraints"]:
            k = rng.choice(list(d["constraints"]))
            d["constraints"][k] = {"type": "NandTerm", "operands": []}
        elif kind == 4 and d["constraints"]:
            k = rng.choice(list(d["constraints"]))
            c = d["constraints"][k]
            c["operands"] = c["operands"][:-1] if c["type"] != "FeatureTerm" else []
        elif kind == 5:
            gen_ids = [i_ for i_ in ids if d["features"][i_]["type"] == "GENOR"]
            if gen_ids:
                d["features"][rng.choice(gen_ids)].pop("max")
        elif kind == 6:
            d["tree"].pop("id")
        elif kind == 7:
            d["features"][rng.choice(ids)]["type"] = rng.choice(["AND", "feature", "Xor", "", None, 3])
        elif kind in (8, 9):
            d["features"][rng.choice(ids)]["name"] = rng.choice([None, 7, ["x"]])
        elif kind == 10:
            gen_ids = [i_ for i_ in ids if d["features"][i_]["type"] == "GENOR"]
            if gen_ids:
                d["features"][rng.choice(gen_ids)][rng.choice(["min", "max"])] = rng.choice([1.0, "1", True, None])
        yield ("malformed", d, m) if with_model else ("malformed", d)
