"""pristine.py — a server that evaluates the read-only operations on ONE model in a process in which
nothing was analysed before: every request is handled in a freshly forked child of a process that has
only imported the library.  The result of an operation "depends only on the model passed to the current
execution" (C19) exactly when it equals the result obtained here.

protocol (one JSON object per line): request {"m": <spec model>, "keys": [...], "metrics": bool}
                                     reply   {"ops": repr, "metrics": repr}"""
import json
import os
import sys

HERE = os.path.dirname(os.path.abspath(__file__))
sys.path.insert(0, HERE)
sys.setrecursionlimit(100000)


def evaluate(req):
    import spec
    import suite_o
    import suite_m
    from flamapy.metamodels.fm_metamodel.operations import FMMetrics
    m = req["m"]
    fm = spec.build_fm(m)
    out = {"ops": repr(suite_o.impl_ops(fm, req["keys"], suite_o.PersistentOps()))}
    if req.get("metrics"):
        try:
            out["metrics"] = repr(suite_m.canon_impl(FMMetrics().execute(fm).get_result()))
        except Exception as e:  # noqa: BLE001
            out["metrics"] = "raises " + type(e).__name__
    return out


def serve():
    import spec  # noqa: F401   (import everything, execute nothing)
    import suite_o  # noqa: F401
    import suite_m  # noqa: F401
    import flamapy.metamodels.fm_metamodel.operations  # noqa: F401
    for line in sys.stdin:
        req = json.loads(line)
        r, w = os.pipe()
        pid = os.fork()
        if pid == 0:
            os.close(r)
            try:
                data = json.dumps(evaluate(req))
            except BaseException as e:  # noqa: BLE001
                data = json.dumps({"error": type(e).__name__ + ": " + str(e)[:200]})
            with os.fdopen(w, "w") as fh:
                fh.write(data)
            os._exit(0)
        os.close(w)
        with os.fdopen(r) as fh:
            data = fh.read()
        os.waitpid(pid, 0)
        sys.stdout.write(data + "\n")
        sys.stdout.flush()


class Client:
    def __init__(self):
        import subprocess
        env = dict(os.environ, PYTHONPATH="/repo", PYTHONHASHSEED="0")
        self.p = subprocess.Popen([sys.executable, "-X", "utf8", os.path.abspath(__file__)], stdin=subprocess.PIPE,
                                  stdout=subprocess.PIPE, text=True, env=env, cwd=HERE)

    def call(self, m, keys, metrics=False):
        self.p.stdin.write(json.dumps({"m": m, "keys": keys, "metrics": metrics}) + "\n")
        self.p.stdin.flush()
        return json.loads(self.p.stdout.readline())

    def close(self):
        try:
            self.p.stdin.close()
            self.p.wait(timeout=10)
        except Exception:  # noqa: BLE001
            self.p.kill()


if __name__ == "__main__":
    serve()
