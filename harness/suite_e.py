"""Suite Q2 — equality / hashing of features, relations, constraints and models (C20):
pairs (m, m') with m' an independently rebuilt order-permuted copy or a single-point edit."""
import copy

import gen
import spec
import sx
from sx import Sym, tag


def bits(bs):
    return Sym("".join("1" if b else "0" for b in bs))


def impl_eqq(a, b):
    fa, fb = spec.build_fm(a), spec.build_fm(b)
    ra, rb = fa.get_relations(), fb.get_relations()
    out = tag(
        "eqq",
        tag("eq", bool(fa == fb)),
        tag("eq_sym", bool(fb == fa)),
        tag("eq_refl", bool(fa == fa and fb == fb)),
        tag("hash_eq", hash(fa) == hash(fb)),
        tag("features_eq", [bits([x == y for y in fb.get_features()]) for x in fa.get_features()]),
        tag("relations_eq", [bits([x == y for y in rb]) for x in ra]),
        tag("relations_hash_eq", [bits([hash(x) == hash(y) for y in rb]) for x in ra]),
        tag("relations_lt", [bits([x < y for y in rb]) for x in ra]),
        tag("ctcs_eq", [bits([x == y for y in fb.ctcs]) for x in fa.ctcs]),
    )
    extra = {
        "inplace": inplace_edit(a, b),
        "ne": fa != fb,
        "set_size": len({fa, fb}),
        "dict_hit": {fa: 1}.get(fb) == 1,
        "elem_hash_consistent": all(hash(x) == hash(y) for x in fa.get_features() for y in fb.get_features() if x == y)
        and all(hash(x) == hash(y) for x in ra for y in rb if x == y)
        and all(hash(x) == hash(y) for x in fa.ctcs for y in fb.ctcs if x == y),
        "elem_sym": all((x == y) == (y == x) for x in ra for y in rb),
    }
    return out, extra


def inplace_edit(a, b):
    """history: build a, use it (==, hash, sort), then turn it into b through the public setters /
    attributes; it must then equal an independently built b.  Only when a and b have the same tree
    shape (edits of names, cardinalities, constraints).  None = not applicable."""
    from flamapy.core.models.ast import AST
    fa = spec.build_fm(a)
    shape = lambda f: [[shape(c) for c in r["children"]] for r in f["rels"]]  # noqa: E731
    if shape(a["root"]) != shape(b["root"]) or len(a["ctcs"]) != len(b["ctcs"]):
        return None
    other = spec.build_fm(a)
    hash(fa), fa == other, sorted(fa.get_relations()), sorted(fa.ctcs), {c: 1 for c in fa.ctcs}   # warm any cache

    def walk(feat, sb):
        feat.name = sb["name"]
        for rel, rb in zip(feat.relations, sb["rels"]):
            rel.card_min, rel.card_max = rb["min"], rb["max"]
            for ch, cb in zip(rel.children, rb["children"]):
                walk(ch, cb)
    walk(fa.root, b["root"])
    for c, (name, node) in zip(fa.ctcs, b["ctcs"]):
        c.name = name
        c.ast = AST(spec.build_node(node))
    fb = spec.build_fm(b)
    return bool(fa == fb and fb == fa and hash(fa) == hash(fb)
                and all(x == y and hash(x) == hash(y) for x, y in zip(fa.ctcs, fb.ctcs))
                and (fa == other) == (fb == other))


# ------------------------------------------------------------------------------ variants
def permuted(m, rng):
    def pf(f):
        g = dict(f)
        rels = []
        for r in f["rels"]:
            cs = [pf(c) for c in r["children"]]
            rng.shuffle(cs)
            rels.append(dict(min=r["min"], max=r["max"], children=cs))
        rng.shuffle(rels)
        g["rels"] = rels
        g["attrs"] = copy.deepcopy(f["attrs"])
        return g
    ctcs = list(m["ctcs"])
    rng.shuffle(ctcs)
    if rng.random() < 0.5:
        # the names stay where they were while the formulas move (a reader that numbers constraints by position gives
        # this for two documents listing the same constraints in another order): a constraint's name is a label
        ctcs = [(n0, a) for (n0, _a0), (_n, a) in zip(m["ctcs"], ctcs)]
    return dict(root=pf(m["root"]), ctcs=ctcs)


def canon(m):
    """independent canonical form of what the property says equality depends on"""
    feats = list(spec.spec_features(m["root"]))
    rels = []
    for f in feats:
        for r in f["rels"]:
            rels.append((f["name"], tuple(sorted(c["name"] for c in r["children"])), r["min"], r["max"]))

    def cn(n):
        if n is None:
            return None
        d, l, r = n
        return (d[0], str(d[1]).lower(), cn(l), cn(r))
    return (m["root"]["name"], tuple(sorted(f["name"] for f in feats)), tuple(sorted(rels)),
            tuple(sorted(repr(cn(a)) for _, a in m["ctcs"])))


def edits(m, rng, g):
    """single-point structural edits; yields (kind, m')"""
    feats = list(spec.spec_features(m["root"]))

    def clone():
        return copy.deepcopy(m)
    # rename one feature
    m2 = clone()
    f = rng.choice(list(spec.spec_features(m2["root"])))
    f["name"] = f["name"] + "_renamed"
    yield "rename", m2
    # change one cardinality
    m2 = clone()
    rs = [r for f in spec.spec_features(m2["root"]) for r in f["rels"]]
    if rs:
        r = rng.choice(rs)
        if rng.random() < 0.5:
            r["max"] = r["max"] + 1
        else:
            r["min"] = r["min"] - 1 if r["min"] > 0 else r["min"] + 1
        yield "card", m2
    # one constraint more (one that sorts after all the others, one that sorts before them)
    for kind, extra in (("ctc-added-last", spec.OP("XOR", spec.T("zzz"), spec.T("zzzz"))),
                        ("ctc-added-first", spec.OP("AND", spec.T("0aa"), spec.T("0ab")))):
        m2 = clone()
        m2["ctcs"].append(("extra", extra))
        yield kind, m2
    if m["ctcs"]:
        m2 = clone()
        m2["ctcs"].pop()
        yield "ctc-removed", m2
    # [a..n] over n children  ->  [a..*]
    m2 = clone()
    rs = [r for f in spec.spec_features(m2["root"]) for r in f["rels"] if r["max"] == len(r["children"])]
    if rs:
        rng.choice(rs)["max"] = -1
        yield "card-star", m2
    # move a leaf to another parent (as a new optional relation)
    m2 = clone()
    fs = list(spec.spec_features(m2["root"]))
    cands = [(p, r, c) for p in fs for r in p["rels"] for c in r["children"] if not c["rels"]]
    if cands and len(fs) > 2:
        p, r, c = rng.choice(cands)
        targets = [t for t in fs if t is not p and t is not c]
        if targets:
            t = rng.choice(targets)
            r["children"].remove(c)
            if not r["children"]:
                p["rels"].remove(r)
            t["rels"].append(spec.R(0, 1, [c]))
            yield "move", m2
    # re-group: merge two relations of one parent / split one group
    m2 = clone()
    fs = list(spec.spec_features(m2["root"]))
    multi = [f for f in fs if len(f["rels"]) >= 2]
    groups = [(f, r) for f in fs for r in f["rels"] if len(r["children"]) >= 2]
    if multi and rng.random() < 0.5:
        f = rng.choice(multi)
        r1 = f["rels"].pop()
        f["rels"][-1]["children"].extend(r1["children"])
        yield "regroup-merge", m2
    elif groups:
        f, r = rng.choice(groups)
        c = r["children"].pop()
        f["rels"].append(spec.R(r["min"], r["max"], [c]))
        yield "regroup-split", m2
    # change one operator / operand of a constraint
    if m["ctcs"]:
        m2 = clone()
        i = rng.randrange(len(m2["ctcs"]))
        name, node = m2["ctcs"][i]
        names = [f["name"] for f in feats]

        def mutate(n):
            d, l, r = n
            if d[0] == "s":
                others = [x for x in names if x.lower() != d[1].lower()] or [d[1] + "_x"]
                return (("s", rng.choice(others)), l, r)
            if rng.random() < 0.5 or l is None:
                swap = {"AND": "OR", "OR": "AND", "IMPLIES": "EQUIVALENCE", "REQUIRES": "EXCLUDES",
                        "EXCLUDES": "REQUIRES", "XOR": "AND", "EQUIVALENCE": "XOR"}
                if d[1] in swap:
                    return (("op", swap[d[1]]), l, r)
                return l      # NOT x  ->  x
            if r is not None and rng.random() < 0.5:
                return (d, l, mutate(r))
            return (d, mutate(l), r)
        m2["ctcs"][i] = (name, mutate(node))
        yield "ctc", m2
        # case-only change of a constraint name: equal by the documented "beyond letter case"
    # swap root with a different root name
    m2 = clone()
    m2["root"]["name"] = m2["root"]["name"] + "_r"
    yield "root", m2


def cases(ctx):
    g = ctx.gen
    tier = ctx.tier
    n = 120 if tier == "quick" else 1500
    kinds = ("mandatory", "optional", "alternative", "or", "mutex", "card")
    # siblings whose names differ only in letter case (ties of any case-insensitive ordering)
    F, R = spec.F, spec.R
    twins = [
        dict(root=F("App", [R(1, 2, [F("Cache"), F("cache")]), R(0, 1, [F("Log")]), R(0, 1, [F("log")])]), ctcs=[]),
        dict(root=F("P", [R(1, 1, [F("Ab"), F("aB"), F("AB")]), R(1, 1, [F("ab"), F("x")]),
                          R(0, 1, [F("Q", [R(1, 2, [F("y"), F("Y")])])])]),
             ctcs=[("c0", spec.OP("IMPLIES", spec.T("Ab"), spec.T("aB"))), ("c1", spec.OP("IMPLIES", spec.T("aB"), spec.T("Ab")))]),
    ]
    # relations whose children's names concatenate alike ('a b' vs {a, b}); a constraint stated twice
    twins.append(dict(root=F("P", [R(1, 1, [F("a b")]), R(1, 1, [F("a"), F("b")]), R(0, 1, [F("b c")]), R(0, 1, [F("b"), F("c")]) if False else R(0, 1, [F("c"), F("d")])]),
                      ctcs=[("c0", spec.OP("IMPLIES", spec.T("a"), spec.T("b"))), ("c1", spec.OP("IMPLIES", spec.T("b"), spec.T("c"))),
                            ("c2", spec.OP("IMPLIES", spec.T("a"), spec.T("b")))]))
    # two different names that str.casefold() (not str.lower()) would identify
    sz = dict(root=F("P", [R(0, 1, [F("Maße-Prüfung")]), R(0, 1, [F("Masse-Prüfung")]), R(0, 1, [F("B")])]),
              ctcs=[("c0", spec.OP("IMPLIES", spec.T("Maße-Prüfung"), spec.T("B")))])
    sz2 = copy.deepcopy(sz)
    sz2["ctcs"][0] = ("c0", spec.OP("IMPLIES", spec.T("Masse-Prüfung"), spec.T("B")))
    yield "casefold-operand", sz, sz2
    # names differing only in the spelling of a number, in one group (ties of any "natural" ordering); groups of more than
    # 256 children; cardinalities whose hashes collide in CPython (hash(-1) == hash(-2), hash(n) == hash(n + 2**61 - 1))
    twins.extend(gen.big_models())
    twins.append(dict(root=F("P", [R(1, 2, [F("v3"), F("v03"), F("v\u0663")]), R(0, 1, [F("ch1"), F("ch01")])]), ctcs=[]))
    for a, b in [((1, -1), (1, -2)), ((0, 2), (2**61 - 1, 2)), ((1, 3), (1, 3 + 2**61 - 1)), ((1, 2), (1, 2 + 2**61 - 1))]:
        ma = dict(root=F("P", [R(a[0], a[1], [F("X"), F("Y"), F("Z")]), R(0, 1, [F("O")])]), ctcs=[])
        mb = dict(root=F("P", [R(b[0], b[1], [F("X"), F("Y"), F("Z")]), R(0, 1, [F("O")])]), ctcs=[])
        yield "edit-card-hash-collision", ma, mb
    for m in twins:
        yield "twins-self", m, copy.deepcopy(m)
        for k in range(6):
            yield "twins-permuted", m, permuted(m, g.rng)
        for kind, m2 in edits(m, g.rng, g):
            yield "twins-edit-" + kind, m, m2
        if len(m["ctcs"]) >= 3:
            mb = copy.deepcopy(m)
            mb["ctcs"][2] = ("c2", m["ctcs"][1][1])
            yield "twins-ctc-multiplicity", m, mb
    for i in range(n):
        size = g.rng.choice([1, 2, 4, 7, 12]) if tier == "quick" else g.rng.choice([1, 3, 8, 20, 60])
        m = g.model(size, kinds=kinds, ctc_depth=2, name_classes=("plain", "space", "keyword", "punct", "lead"))
        # same-cardinality sibling groups are the interesting case for ordering
        if size >= 5 and g.rng.random() < 0.5:
            f = m["root"]
            extra = g.names(4, ("plain",))
            extra = [x + "_g" for x in extra]
            f["rels"].append(spec.R(1, 1, [spec.F(extra[0]), spec.F(extra[1])]))
            f["rels"].append(spec.R(1, 1, [spec.F(extra[2]), spec.F(extra[3])]))
        yield "self", m, copy.deepcopy(m)
        for k in range(2):
            yield "permuted", m, permuted(m, g.rng)
        for kind, m2 in edits(m, g.rng, g):
            yield "edit-" + kind, m, m2
            yield "edit-" + kind + "-permuted", m, permuted(m2, g.rng)
        # the same set of distinct constraints with different multiplicities
        if len(m["ctcs"]) >= 2:
            ma, mb = copy.deepcopy(m), copy.deepcopy(m)
            ma["ctcs"].append(("dupA", m["ctcs"][0][1]))
            mb["ctcs"].append(("dupB", m["ctcs"][1][1]))
            yield "ctc-multiplicity", ma, mb
            yield "ctc-multiplicity-permuted", ma, permuted(mb, g.rng)


def numeric_cardinalities(st):
    """equal objects have equal hashes also when a cardinality is spelt 2.0 or True (readers pass the JSON numbers through)"""
    F, R = spec.F, spec.R
    for a, b, label in [((1, 2), (1.0, 2.0), "float cardinalities"), ((0, 1), (False, True), "boolean cardinalities")]:
        ma = dict(root=F("P", [R(a[0], a[1], [F("X"), F("Y")])]), ctcs=[])
        mb = dict(root=F("P", [R(b[0], b[1], [F("Y"), F("X")])]), ctcs=[])
        fa, fb = spec.build_fm(ma), spec.build_fm(mb)
        ra, rb = fa.get_relations()[0], fb.get_relations()[0]
        for x, y, what in ((ra, rb, "relation"), (fa, fb, "model")):
            if x == y and hash(x) != hash(y):
                st.oracle_fail("numeric-cards", label, "equal-objects-equal-hashes", f"{what} level, {label}")
            if x == y and len({x, y}) != 1:
                st.oracle_fail("numeric-cards", label, "permuted-copy-set-dict", f"{what} level, {label}")


def run(ctx):
    st = ctx.suite("Q2")
    numeric_cardinalities(st)
    for label, a, b in cases(ctx):
        req = sx.dumps(tag("eqq", spec.fm_sx(a), spec.fm_sx(b)))
        mrep = ctx.model.call_raw(req)
        try:
            rep, extra = impl_eqq(a, b)
            irep = sx.dumps(rep)
        except RecursionError:
            raise
        except Exception as e:  # noqa: BLE001
            rep, extra = None, None
            irep = f"(crash {spec.exn_name(e)})"
        if label == "edit-card-hash-collision" and rep is not None:
            # CPython's int hash collides on these bounds by construction (hash(-1) == hash(-2), period 2**61 - 1); the
            # model's hash is structural.  Equal hashes of UNEQUAL objects are no concern of C20: compare everything else
            def drop(r):
                return [x for x in r if not (isinstance(x, list) and x and str(x[0]) in ("hash_eq", "relations_hash_eq"))]
            irep, mrep = sx.dumps(drop(rep)), sx.dumps(drop(sx.loads(mrep)))
        st.record(label, req, irep, mrep, nontrivial=spec.spec_size(a["root"]) >= 2)
        if rep is None:
            st.oracle_fail(label, req, "raises", irep)
            continue
        q = {x[0]: x[1] for x in rep[1:]}
        same = canon(a) == canon(b)
        eq = q["eq"] is True
        if q["eq_refl"] is not True:
            st.oracle_fail(label, req, "reflexive", "")
        if q["eq"] != q["eq_sym"] or not extra["elem_sym"]:
            st.oracle_fail(label, req, "symmetric", "")
        if eq and not q["hash_eq"]:
            st.oracle_fail(label, req, "equal-objects-equal-hashes", "model level")
        if not extra["elem_hash_consistent"]:
            st.oracle_fail(label, req, "equal-objects-equal-hashes", "element level")
        if extra["ne"] == eq:
            st.oracle_fail(label, req, "ne-is-not-eq", "")
        if extra["inplace"] is False:
            st.oracle_fail(label, req, "edited-in-place-equals-rebuilt", label)
        if same and not eq:
            st.oracle_fail(label, req, "permuted-copy-equal", label)
        if same and (extra["set_size"] != 1 or not extra["dict_hit"]):
            st.oracle_fail(label, req, "permuted-copy-set-dict", str(extra))
        if not same and eq:
            st.oracle_fail(label, req, "different-models-unequal", label)
