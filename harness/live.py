"""Histories of public calls that end in the same feature model.

The properties quantify over feature models, not over the way a model object came to be.  A model object that was
built top-down from fresh objects and one that reached the same content through a history of public calls (in-place
edits through setters, a subtree moved to another parent and back, attributes installed with set_attributes, reads
that may have filled caches in between) are the same model, and every reader, writer and operation has to treat them
alike.  spec.build_fm uses this module so that every suite sees a fixed share of its models through such a history;
the choice is a function of the spec alone (a CRC of its printed form), so a failing case replays exactly.

Out of scope (documented in DESIGN 9.6, round 5): objects shared between two models or two holders (a Feature with
two parents, an Attribute held by two features), and a child added with Relation.add_child after the relation was
attached (its parent pointer is None and the code at the pinned commit itself fails on such a model).
"""
import random
import zlib

PLAIN, HISTORY, DETOUR, FILL, GHOST, LISTFILL = 0, 1, 2, 3, 4, 5
GHOST_NAMES = ("__ghost__", "__ghost_child__")


def mode_of(m):
    """deterministic choice of the way a spec is built: two sevenths plain, a seventh each history, ghost, detour, fill, list-fill.
    (iterative walk, bounded: deep chains are specs too)"""
    acc, stack, seen = [], [m["root"]], 0
    while stack and seen < 300:
        f = stack.pop()
        seen += 1
        acc.append((f["name"], f["abstract"], len(f["attrs"]), [(r["min"], r["max"], len(r["children"])) for r in f["rels"]]))
        for r in f["rels"]:
            stack.extend(r["children"])
    for name, node in m["ctcs"]:
        acc.append(name)
        stack, seen = [node], 0
        while stack and seen < 100:
            n = stack.pop()
            seen += 1
            if n is not None:
                acc.append(n[0])
                stack.extend((n[1], n[2]))
    h = zlib.crc32(repr(acc).encode("utf8", "surrogatepass"))
    return (PLAIN, HISTORY, GHOST, DETOUR, FILL, PLAIN, LISTFILL)[h % 7], h


def _quiet(fn, *a):
    try:
        return fn(*a)
    except RecursionError:
        raise
    except Exception:  # noqa: BLE001
        return None


def warm_ctc(c):
    """read-only public calls on a constraint, the ones a cache could sit behind"""
    for meth in ("get_features", "is_logical_constraint", "is_arithmetic_constraint", "is_aggregation_constraint",
                 "is_single_feature_constraint", "is_simple_constraint", "is_requires_constraint",
                 "is_excludes_constraint", "is_complex_constraint", "is_pseudocomplex_constraint",
                 "is_strictcomplex_constraint"):
        if hasattr(c, meth):
            _quiet(getattr(c, meth))
    _quiet(str, c)
    _quiet(hash, c)
    _quiet(c.ast.get_operators)
    _quiet(c.ast.get_operands)
    _quiet(c.ast.pretty_str)


def warm(fm):
    """read-only public calls on a model, the ones a cache could sit behind; failures are irrelevant here"""
    quiet = _quiet
    for c in fm.get_constraints():
        warm_ctc(c)
    for meth in ("get_features", "get_relations", "get_mandatory_features", "get_optional_features",
                 "get_alternative_group_features", "get_or_group_features", "get_logical_constraints",
                 "get_arithmetic_constraints", "get_aggregations_constraints", "get_simple_constraints",
                 "get_complex_constraints", "get_requires_constraints", "get_excludes_constraints",
                 "get_attributes", "get_leaf_features"):
        if hasattr(fm, meth):
            quiet(getattr(fm, meth))
    for f in quiet(fm.get_features) or []:
        for meth in ("is_mandatory", "is_optional", "is_group", "is_alternative_group", "is_or_group", "is_leaf",
                     "is_root", "get_children", "get_parent"):
            if hasattr(f, meth):
                quiet(getattr(f, meth))
        quiet(fm.get_feature_by_name, f.name)
    quiet(hash, fm)
    quiet(str, fm)


def variant_for_history(m, rng):
    """same tree shape, other names' kinds and other formulas; some of the formulas are arithmetic so that a
    classification remembered from the earlier tree would be wrong for the later one"""
    import spec
    b = spec.same_shape_variant(m, rng)
    names = [f["name"] for f in spec.spec_features(b["root"])]
    for i, (nm, _node) in enumerate(b["ctcs"]):
        if i % 3 == 1:
            a, c = rng.choice(names), rng.choice(names)
            b["ctcs"][i] = (nm, spec.OP("GREATER", spec.OP("ADD", spec.T(a), spec.T(c)), (("i", 1), None, None)))
    return b


def build_history(m, h, plain):
    """build another model of the same shape, read it (warm), then turn it into m through the public setters"""
    import spec
    rng = random.Random(h)
    fm = plain(variant_for_history(m, rng))
    warm(fm)
    spec.retarget(fm, m)
    return fm


def _subtree(f):
    out = [f]
    for r in f.get_relations():
        for c in r.children:
            out.extend(_subtree(c))
    return out


def build_detour(m, h, plain):
    """m with the last single child (and its subtree) of some feature built under ANOTHER feature first, then moved to
    its place through Feature.relations and Feature.add_relation, and once more away and back: the parent pointer has
    to follow every move"""
    import copy
    import spec
    from flamapy.metamodels.fm_metamodel.models import Relation
    rng = random.Random(h)
    m2 = copy.deepcopy(m)
    feats = list(spec.spec_features(m2["root"]))
    cands = [f for f in feats if f["rels"] and len(f["rels"][-1]["children"]) == 1]
    if not cands:
        return plain(m)
    sp = rng.choice(cands)
    old = sp["rels"][-1]
    inside = set(map(id, spec.spec_features(old["children"][0])))
    others = [f for f in feats if id(f) not in inside and f is not sp]
    if not others:
        return plain(m)
    st = rng.choice(others)
    sp["rels"].pop()
    st["rels"].append(dict(old, min=0, max=1))
    fm = plain(m2)
    objs = dict((id(f), o) for f, o in zip(spec.spec_features(m2["root"]), _subtree(fm.root)))
    p, t = objs[id(sp)], objs[id(st)]
    moved = t.get_relations()[-1].children[0]
    warm(fm)
    del t.get_relations()[-1]          # by position: list.remove would compare relations by value
    p.add_relation(Relation(p, [moved], old["min"], old["max"]))
    return fm


def build_ghost(m, h, plain):
    """m with a two-feature subtree (GHOST_NAMES) hung under some feature, everything read once (lookups by name included),
    and the subtree removed again: what was there before the removal is not part of the model"""
    from flamapy.metamodels.fm_metamodel.models import Feature, Relation
    rng = random.Random(h)
    fm = plain(m)
    host = rng.choice(_subtree(fm.root)[:50])
    ghost = Feature(GHOST_NAMES[0])
    ghost.add_relation(Relation(ghost, [Feature(GHOST_NAMES[1], parent=ghost)], 1, 1))
    host.add_relation(Relation(host, [ghost], 0, 1))
    warm(fm)
    for n in GHOST_NAMES:
        _quiet(fm.get_feature_by_name, n)
    del host.get_relations()[-1]
    return fm
