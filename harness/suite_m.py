"""Suite O-metrics (C17): FMMetrics through Metrics.execute, with filters and sequences of models on
one operation object; oracle written from the property text."""
from fractions import Fraction

import gen
import spec
import sx
from sx import Sym, tag

FLOAT_METRICS = {"Branching factor", "Avg children per feature", "Mean depth of tree",
                 "Median depth of tree", "Avg constraints per feature"}
SET_METRICS = {"Features in constraints"}


def canon_impl(entries):
    out = []
    for e in entries:
        name = e["name"]
        res = e["result"]
        if isinstance(res, list):
            r = ["names", sorted(res) if name in SET_METRICS else list(res)]
        elif isinstance(res, str):
            r = ["str", res]
        elif name in FLOAT_METRICS and isinstance(res, (int, float)) and not isinstance(res, bool):
            h = round(Fraction(res) * 100)
            r = ["hund", int(h)] if abs(Fraction(res) * 100 - h) < Fraction(1, 10**6) else ["float", repr(res)]
        elif isinstance(res, int) and not isinstance(res, bool):
            r = ["int", res]
        else:
            r = ["other", repr(res)]
        ratio = e["ratio"]
        if ratio is not None:
            t = round(Fraction(ratio) * 10000)
            ratio = int(t) if abs(Fraction(ratio) * 10000 - t) < Fraction(1, 10**4) else repr(ratio)
        out.append([name, r, e["size"], ratio, e["parent"], e["level"]])
    return out


def canon_model(reply):
    if reply[0] != "ok":
        return ("err", str(reply[1]))
    out = []
    for e in reply[1]:
        _meth, name, res, size, ratio, parent, level = e
        kind = str(res[0])
        if kind == "names":
            r = ["names", sorted(res[1]) if name in SET_METRICS else list(res[1])]
        elif kind == "str":
            r = ["str", res[1]]
        else:
            r = [kind, int(res[1])]
        out.append([name, r, None if size == "nil" else int(size), None if ratio == "nil" else int(ratio),
                    None if parent == "nil" else parent, int(level)])
    return ("ok", out)


RATIO_BASE = {
    "Abstract features": "Features", "Concrete features": "Features", "Leaf features": "Features",
    "Compound features": "Features", "Solitary features": "Features", "Grouped features": "Features",
    "Top features": "Features", "Concrete compound features": "Concrete features",
    "Concrete leaf features": "Concrete features", "Abstract compound features": "Abstract features",
    "Abstract leaf features": "Abstract features", "Mandatory features": "Solitary features",
    "Optional features": "Solitary features", "Feature groups": "Tree relationships",
    "Alternative groups": "Feature groups", "Or groups": "Feature groups", "Mutex groups": "Feature groups",
    "Cardinality groups": "Feature groups", "Simple constraints": "Cross-tree constraints",
    "Complex constraints": "Cross-tree constraints", "Requires constraints": "Simple constraints",
    "Excludes constraints": "Simple constraints", "Pseudo-complex constraints": "Complex constraints",
    "Strict-complex constraints": "Complex constraints", "Features in constraints": "Features",
}


def oracle_c17(m, entries, fm, filtered):
    fails = []
    names = [e["name"] for e in entries]
    if len(set(names)) != len(names):
        fails.append(("names-once", str(names)))
    by = {e["name"]: e for e in entries}
    if not filtered and len(entries) != 40:
        fails.append(("all-40-metrics", str(len(entries))))
    for e in entries:
        if isinstance(e["result"], list):
            if e["size"] != len(e["result"]):
                fails.append(("size=len", e["name"]))
        if e["ratio"] is not None:
            if not (0 <= e["ratio"] <= 1):
                fails.append(("ratio-in-0-1", f"{e['name']}: {e['ratio']}"))
            base = RATIO_BASE.get(e["name"])
            if base and base in by and isinstance(by[base]["result"], list):
                bs = len(by[base]["result"])
                size = e["size"]
                prec = 2 if e["name"] == "Features in constraints" else 4
                exp = round(size / bs, prec) if bs else 0.0
                if e["ratio"] != exp:
                    fails.append(("ratio=size/base", f"{e['name']}: {e['ratio']} != {size}/{bs}"))
    if filtered:
        return fails
    R = {k: (sorted(v["result"]) if isinstance(v["result"], list) else v["result"]) for k, v in by.items()}

    def split(a, b, whole, label):
        if sorted(R[a] + R[b]) != sorted(whole):
            fails.append((f"partition:{label}", f"{a} + {b}"))
    feats = list(spec.spec_features(m["root"]))
    fnames = [f["name"] for f in feats]
    nonroot = fnames[1:]
    split("Abstract features", "Concrete features", fnames, "abstract/concrete")
    split("Leaf features", "Compound features", fnames, "leaf/compound")
    split("Solitary features", "Grouped features", nonroot, "solitary/grouped")
    for sub in ("Mandatory features", "Optional features"):
        if not set(R[sub]) <= set(R["Solitary features"]):
            fails.append((f"inside:{sub}<=solitary", ""))
    split("Requires constraints", "Excludes constraints", R["Simple constraints"], "requires/excludes")
    logical = sorted(str(c) for c in fm.get_logical_constraints())
    split("Simple constraints", "Complex constraints", logical, "simple/complex")
    for sub in ("Pseudo-complex constraints", "Strict-complex constraints"):
        if not set(R[sub]) <= set(R["Complex constraints"]):
            fails.append((f"inside:{sub}<=complex", ""))
    # definitions computed directly on the tree
    parent = {}
    for f in feats:
        for r in f["rels"]:
            for c in r["children"]:
                parent[c["name"]] = (f, r)

    def expect(key, val):
        got = R[key]
        if got != val:
            fails.append((f"definition:{key}", f"{got} != {val}"))
    expect("Features", sorted(fnames))
    expect("Abstract features", sorted(f["name"] for f in feats if f["abstract"]))
    expect("Leaf features", sorted(f["name"] for f in feats if not f["rels"]))
    expect("Root feature", m["root"]["name"])
    expect("Top features", sorted(c["name"] for r in m["root"]["rels"] for c in r["children"]))
    expect("Grouped features", sorted(n for n in nonroot if len(parent[n][1]["children"]) > 1))
    expect("Mandatory features", sorted(n for n in nonroot if (parent[n][1]["min"], parent[n][1]["max"], len(parent[n][1]["children"])) == (1, 1, 1)))
    expect("Optional features", sorted(n for n in nonroot if (parent[n][1]["min"], parent[n][1]["max"], len(parent[n][1]["children"])) == (0, 1, 1)))
    expect("Feature groups", sorted(f["name"] for f in feats if any(len(r["children"]) > 1 or (r["min"], r["max"]) not in ((1, 1), (0, 1)) for r in f["rels"])))
    expect("Alternative groups", sorted(f["name"] for f in feats if any(len(r["children"]) > 1 and (r["min"], r["max"]) == (1, 1) for r in f["rels"])))
    expect("Or groups", sorted(f["name"] for f in feats if any(len(r["children"]) > 1 and (r["min"], r["max"]) == (1, len(r["children"])) for r in f["rels"])))
    expect("Mutex groups", sorted(f["name"] for f in feats if any(len(r["children"]) > 1 and (r["min"], r["max"]) == (0, 1) for r in f["rels"])))
    kids = [sum(len(r["children"]) for r in f["rels"]) for f in feats]
    expect("Max children per feature", max(kids))
    expect("Min children per feature", min([k for k in kids if k] or [0]))
    expect("Avg children per feature", round(sum(kids) / len(feats), 2))

    def depth(n):
        d = 0
        while n in parent:
            n = parent[n][0]["name"]
            d += 1
        return d
    depths = [depth(f["name"]) for f in feats if not f["rels"]]
    expect("Max depth of tree", max(depths))
    expect("Depth of tree", max(depths))
    import statistics
    expect("Mean depth of tree", round(statistics.mean(depths), 2))
    expect("Median depth of tree", round(statistics.median(depths), 2))
    # constraints per feature: for each feature the number of constraints that mention it
    def mentioned(node, acc):
        d, l, r = node
        if d[0] == "s" and l is None and r is None and not d[1].startswith("'"):
            acc.add(d[1])
        for c in (l, r):
            if c is not None:
                mentioned(c, acc)
        return acc
    per_ctc = [mentioned(node, set()) for _, node in m["ctcs"]]
    cpf = [sum(1 for s_ in per_ctc if n in s_) for n in fnames]
    if "Min constraints per feature" in R:
        expect("Min constraints per feature", min(cpf))
        expect("Max constraints per feature", max(cpf))
        expect("Avg constraints per feature", round(statistics.mean(cpf), 2))
        expect("Features in constraints", sorted(set().union(*per_ctc) & set(fnames)) if per_ctc else [])
        expect("Cross-tree constraints", sorted(str(c) for c in fm.get_constraints()))
    # duplicates of stand-alone operations
    from flamapy.metamodels.fm_metamodel.operations import (FMAverageBranchingFactor, FMMaxDepthTree,
                                                             FMLeafFeatures, FMCountLeafs)
    if R["Branching factor"] != FMAverageBranchingFactor().execute(fm).get_result():
        fails.append(("duplicate:branching-factor", ""))
    if R["Max depth of tree"] != FMMaxDepthTree().execute(fm).get_result():
        fails.append(("duplicate:max-depth", ""))
    if R["Leaf features"] != sorted(f.name for f in FMLeafFeatures().execute(fm).get_result()):
        fails.append(("duplicate:leaf-features", ""))
    if by["Leaf features"]["size"] != FMCountLeafs().execute(fm).get_result():
        fails.append(("duplicate:count-leafs", ""))
    return fails


def cases(ctx):
    g = ctx.gen
    kinds = ("mandatory", "optional", "alternative", "or", "mutex", "card", "nn", "zero")
    yield "root-only", dict(root=spec.F("Solo"), ctcs=[])
    yield "root-only-abstract", dict(root=spec.F("Solo", abstract=True), ctcs=[])
    for n in range(1, 4 if ctx.tier == "quick" else 5):
        for t in gen_trees(n):
            yield f"exh{n}", dict(root=t, ctcs=[])
    # constraints naming a feature more than once, every operator nested in every operator; case twins
    for m in gen.nest_models(gen.LOGICAL, chunk=3):
        yield "nest-ctc", m
    for m in gen.case_twin_models():
        yield "case-twins", m
    # constraints that mention attributes of features or literals, not only features
    T, OP = spec.T, spec.OP
    yield "attribute-references", gen.free_model([OP("IMPLIES", T("A.x"), T("A.y")), OP("NOT", T("A.z")), OP("OR", T("B"), T("'lit'"))],
                                                 names=("A", "B"))
    yield "attribute-references", gen.free_model([OP("REQUIRES", T("A.x"), T("C.y")), OP("EXCLUDES", T("B.x"), T("B.y"))], names=("A",))
    # features that occur in a constraint only as arguments of an aggregate function (typed features, attributes)
    yield "aggregates", gen.free_model([OP("GREATER", OP("LEN", T("Owner")), (("i", 3), None, None)),
                                        OP("LOWER", OP("SUM", T("price"), T("Catalog")), (("i", 10), None, None)),
                                        OP("IMPLIES", T("Owner"), T("Shop")),
                                        OP("EQUALS", OP("AVG", T("price"), T("Basket")), OP("FLOOR", T("Rate")))],
                                       names=("Owner", "Catalog", "Shop", "Basket", "Rate"))
    # features whose names are digits only (ASCII, Arabic-Indic, a superscript): names, not numbers
    digit_names = ("2024", "\u0663\u0662", "\u00b2", "v1")
    yield "digit-names", gen.free_model([OP("IMPLIES", T("2024"), T("v1")), OP("EXCLUDES", T("\u0663\u0662"), T("2024")),
                                         OP("OR", T("\u00b2"), OP("NOT", T("v1")))], names=digit_names)
    yield "twins", dict(root=spec.F("App", [spec.R(1, 1, [spec.F("log")]), spec.R(0, 1, [spec.F("Log")]),
                                            spec.R(1, 1, [spec.F("Ab"), spec.F("aB")])]), ctcs=[])
    for i in range(200 if ctx.tier == "quick" else 3000):
        n = g.rng.choice([1, 2, 3, 5, 9, 14]) if ctx.tier == "quick" else g.rng.choice([1, 2, 5, 12, 40, 150])
        m = g.model(n, kinds=kinds, ctc_depth=2, abstract=True, typed=True, fcard=True,
                    name_classes=("plain", "space", "keyword", "nonascii", "punct", "lead"))
        yield "random", m


def gen_trees(n):
    return gen.all_trees(n, "all" if n <= 3 else "kinds")


def run(ctx):
    from flamapy.metamodels.fm_metamodel.operations import FMMetrics
    st = ctx.suite("O-metrics")
    g = ctx.gen
    shared = FMMetrics()
    direct = FMMetrics()
    held = None
    all_methods = None
    for label, m in cases(ctx):
        # filter: none, or a random subset of the method names
        flt = None
        if all_methods and g.rng.random() < 0.3:
            flt = g.rng.sample(all_methods, g.rng.randint(0, 6))      # the empty subset too: an empty report
        req = sx.dumps(tag("metrics", flt if flt is not None else Sym("none"), spec.fm_sx(m)))
        mrep = canon_model(sx.loads(ctx.model.call_raw(req)))
        fm = spec.build_fm(m)
        # history: the same operation object for every model of the run
        try:
            shared.filter = None
            if flt is not None:
                shared.only_these_metrics(flt)
            entries = shared.execute(fm).get_result()
            irep = ("ok", canon_impl(entries))
            # the report handed out for the previous model belongs to its caller
            if held is not None and canon_impl(held[0]) != held[1]:
                st.oracle_fail(label, req, "history:report-handed-out-earlier-was-changed", "")
            held = (entries, canon_impl(entries))
        except RecursionError:
            raise
        except Exception as e:  # noqa: BLE001
            entries = None
            irep = ("err", spec.exn_name(e))
        st.record(label, req, repr(irep), repr(mrep), nontrivial=spec.spec_size(m["root"]) >= 2)
        if sx.dumps(spec.fm_sx(spec.dump_fm(fm))) != sx.dumps(spec.fm_sx(m)):
            st.oracle_fail(label, req, "metrics-modified-model", "")
        if entries is None:
            st.oracle_fail(label, req, "raises", irep[1])
            continue
        if all_methods is None and flt is None:
            import inspect
            all_methods = [n for n, f in inspect.getmembers(FMMetrics, inspect.isfunction)
                           if hasattr(f, "_is_metric_method")]
        # a fresh object must give the same report (result depends on the current model only)
        fresh = FMMetrics()
        if flt is not None:
            fresh.only_these_metrics(flt)
        if canon_impl(fresh.execute(fm).get_result()) != irep[1]:
            st.oracle_fail(label, req, "history:differs-from-fresh-object", "")
        # the public method behind execute(), on one object for every model of the run
        if flt is None:
            try:
                direct_rep = ("ok", canon_impl(direct.calculate_metamodel_metrics(fm)))
            except RecursionError:
                raise
            except Exception as e:  # noqa: BLE001
                direct_rep = ("err", spec.exn_name(e))
            if direct_rep != irep:
                st.oracle_fail(label, req, "history:differs-from-fresh-object",
                               "calculate_metamodel_metrics on an object that analysed other models before")
        if flt is not None:
            full = {e["name"]: e for e in FMMetrics().execute(fm).get_result()}
            for e in entries:
                if canon_impl([full[e["name"]]]) != canon_impl([e]):
                    st.oracle_fail(label, req, "filter:entry-differs-from-full-report", e["name"])
        for clause, detail in oracle_c17(m, entries, fm, flt is not None):
            st.oracle_fail(label, req, clause, detail)
        # history: the same model OBJECT edited in place through public attributes and setters (cardinalities, abstract
        # flags, constraint formulas moved between the simple / pseudo-complex / strict-complex classes) and analysed again
        # by the same operation object: the report is the edited model's
        if flt is None and (label in ("nest-ctc", "case-twins") or (label == "random" and g.rng.random() < 0.3)):
            b = spec.same_shape_variant(m, g.rng)
            spec.retarget(fm, b)
            req2 = sx.dumps(tag("metrics", Sym("none"), spec.fm_sx(b)))
            mrep2 = canon_model(sx.loads(ctx.model.call_raw(req2)))
            try:
                entries2 = shared.execute(fm).get_result()
                irep2 = ("ok", canon_impl(entries2))
            except RecursionError:
                raise
            except Exception as e:  # noqa: BLE001
                entries2, irep2 = None, ("err", spec.exn_name(e))
            st.record("edited-in-place", req2, repr(irep2), repr(mrep2), nontrivial=spec.spec_size(b["root"]) >= 2)
            if entries2 is None:
                st.oracle_fail("edited-in-place", req2, "raises", irep2[1])
            else:
                for clause, detail in oracle_c17(b, entries2, fm, False):
                    st.oracle_fail("edited-in-place", req2, clause, detail)
                # every metric is its definition on the tree: the same tree built afresh, analysed by a new object, has
                # the same report
                import live
                afresh = canon_impl(FMMetrics().execute(spec.build_fm(b, mode=live.PLAIN)).get_result())
                if afresh != irep2[1]:
                    bad = [x[0] for x, y in zip(irep2[1], afresh) if x != y]
                    st.oracle_fail("edited-in-place", req2, "history:report-differs-from-the-same-model-built-afresh", str(bad[:6]))
            held = None      # the report handed out before belongs to the model before the edit
