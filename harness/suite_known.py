"""Fixed inputs reproducing the OPEN findings listed in known_findings.json (other than those with a suite of their
own).  Each has a control that differs only in the construct concerned and must behave correctly, so that a failure is
attributable.  Failures carry the clause  known:<finding key>:<label>  and are matched with the list by registry._known_key;
a control that fails is an ordinary (unlisted) failure."""
import contextlib
import io
import logging

import fmt
import spec
import sx
from spec import T, OP
from sx import tag


def _quiet(fn):
    logging.disable(logging.CRITICAL)
    try:
        with contextlib.redirect_stderr(io.StringIO()), contextlib.redirect_stdout(io.StringIO()):
            return fn()
    finally:
        logging.disable(logging.NOTSET)


def _roundtrip(st, sc, key, label, m, Writer, Reader, ext, same):
    """write m, read it back, compare with [same]"""
    clause = f"known:{key}:{label}" if key else label
    req = sx.dumps(tag("roundtrip", ext, spec.fm_sx(m)))
    path = sc.path(ext)
    try:
        fm = spec.build_fm(m)
        _quiet(lambda: Writer(path, fm).transform())
    except RecursionError:
        st.oracle_fail(label, req, clause, "writer raises RecursionError")
        return
    except Exception as e:  # noqa: BLE001
        st.oracle_fail(label, req, clause, "writer raises " + spec.exn_name(e))
        return
    try:
        back = spec.dump_fm(_quiet(lambda: Reader(path).transform()))
    except RecursionError:
        st.oracle_fail(label, req, clause, "reader raises RecursionError on the writer's output")
        return
    except Exception as e:  # noqa: BLE001
        st.oracle_fail(label, req, clause, "reader rejects the writer's output: " + spec.exn_name(e))
        return
    diffs = same(m, back)
    if diffs:
        st.oracle_fail(label, req, clause, "; ".join(diffs[:3])[:300])
    st.record(label, req, "done", "done")


def _chain(depth, prefix="D"):
    f = spec.F(f"{prefix}{depth}")
    for i in range(depth - 1, -1, -1):
        f = spec.F(f"{prefix}{i}", [spec.R(1, 1, [f])])
    return dict(root=f, ctcs=[])


def _same_tree(m, back):
    d = fmt.spec_equal(m, back)
    if len(back["ctcs"]) != len(m["ctcs"]):
        d.append(f"{len(back['ctcs'])} constraints instead of {len(m['ctcs'])}")
    return d


def run_c01_known(ctx):
    from flamapy.metamodels.fm_metamodel.transformations import UVLWriter, UVLReader
    st = ctx.suite("R-uvl-known-models")
    sc = fmt.Scratch()
    F, R, A = spec.F, spec.R, spec.A
    try:
        def m_names(a, b):
            return dict(root=F("Root", [R(0, 1, [F(a)]), R(1, 1, [F(b)])]), ctcs=[("c", OP("IMPLIES", T("Root"), T(b)))])
        cases = [
            (None, "control:quoted names", m_names("it's", "x y")),
            ("uvl-name-starting-with-apostrophe", "feature named 'q'", m_names("'q'", "B")),
            ("uvl-name-starting-with-apostrophe", "feature named 'x used in a constraint", m_names("A", "'x")),
            (None, "control:string value", dict(root=F("Root", attrs=[A("version", default="1_5")]), ctcs=[])),
            ("uvl-string-value-with-dot-or-line-break", "string value '1.5'",
             dict(root=F("Root", attrs=[A("version", default="1.5")]), ctcs=[])),
            ("uvl-string-value-with-dot-or-line-break", "string value www.example.org in a list",
             dict(root=F("Root", attrs=[A("urls", default=["www.example.org", "x"])]), ctcs=[])),
            ("uvl-string-value-with-dot-or-line-break", "string value with a line break",
             dict(root=F("Root", attrs=[A("note", default="two\nlines")]), ctcs=[])),
        ]
        for key, label, m in cases:
            _roundtrip(st, sc, key, label, m, UVLWriter, UVLReader, "uvl", _same_tree)
    finally:
        sc.close()


def run_c02_known(ctx):
    """models returned by a reader that the rest of the library cannot consume"""
    from flamapy.metamodels.fm_metamodel.transformations import UVLReader, JSONWriter, FeatureIDEWriter, JSONReader
    st = ctx.suite("R-known-consumers")
    sc = fmt.Scratch()
    try:
        docs = [
            (None, "control:two-argument aggregate", "features\n    A {price 1}\n        optional\n            B {price 2}\nconstraints\n    avg(price, A) > 3\n"),
            ("core-pretty-str-one-argument-aggregate", "len(X) read by UVLReader, written by JSONWriter",
             "features\n    A\n        optional\n            String X\nconstraints\n    len(X) > 3\n"),
            ("core-pretty-str-one-argument-aggregate", "sum(price) read by UVLReader, written by JSONWriter",
             "features\n    A {price 1}\n        optional\n            B {price 2}\nconstraints\n    sum(price) > 3\n"),
        ]
        for key, label, text in docs:
            clause = f"known:{key}:{label}" if key else label
            path = sc.path("uvl")
            with open(path, "w", encoding="utf-8") as fh:
                fh.write(text)
            try:
                fm = _quiet(lambda: UVLReader(path).transform())
            except Exception as e:  # noqa: BLE001
                st.oracle_fail(label, sx.dumps(text), clause, "reader raises " + spec.exn_name(e))
                continue
            for W, ext in ((JSONWriter, "json"), (FeatureIDEWriter, "xml")):
                try:
                    _quiet(lambda: W(sc.path(ext), fm).transform())
                except Exception as e:  # noqa: BLE001
                    st.oracle_fail(label, sx.dumps(text), clause, f"{W.__name__} cannot traverse the constraint: {spec.exn_name(e)}")
                    break
            st.record(label, sx.dumps(text), "done", "done")
        # a name starting with an apostrophe is taken for a string literal by Constraint.get_features
        from flamapy.metamodels.fm_metamodel.transformations import JSONReader as JR
        for key, label, a in [(None, "control:name with an inner apostrophe", "n'Feature"),
                              ("get-features-drops-names-starting-with-apostrophe", "feature named 'n Feature", "'n Feature")]:
            clause = f"known:{key}:{label}" if key else label
            m = dict(root=spec.F("Root", [spec.R(0, 1, [spec.F(a)]), spec.R(0, 1, [spec.F("B")])]),
                     ctcs=[("c", OP("IMPLIES", T(a), T("B")))])
            path = sc.path("json")
            _quiet(lambda: JSONWriter(path, spec.build_fm(m)).transform())
            fm = _quiet(lambda: JR(path).transform())
            got = sorted(fm.get_constraints()[0].get_features())
            if got != sorted([a, "B"]):
                st.oracle_fail(label, sx.dumps(tag("json", spec.fm_sx(m))), clause, f"get_features() = {got}")
            st.record(label, sx.dumps(tag("json", spec.fm_sx(m))), "done", "done")
    finally:
        sc.close()
