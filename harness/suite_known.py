"""Fixed inputs reproducing the OPEN findings listed in known_findings.json (other than those with a suite of their
own).  Each has a control that differs only in the construct concerned and must behave correctly, so that a failure is
attributable.  Failures carry the clause  known:<finding key>:<label>  and are matched with the list by registry._known_key;
a control that fails is an ordinary (unlisted) failure."""
import contextlib
import io
import logging

import fmt
import spec
import sx
from spec import T, OP
from sx import tag


def _quiet(fn):
    logging.disable(logging.CRITICAL)
    try:
        with contextlib.redirect_stderr(io.StringIO()), contextlib.redirect_stdout(io.StringIO()):
            return fn()
    finally:
        logging.disable(logging.NOTSET)


def _roundtrip(st, sc, key, label, m, Writer, Reader, ext, same):
    """write m, read it back, compare with [same]"""
    clause = f"known:{key}:{label}" if key else label
    req = sx.dumps(tag("roundtrip", ext, spec.fm_sx(m)))
    path = sc.path(ext)
    try:
        fm = spec.build_fm(m)
        _quiet(lambda: Writer(path, fm).transform())
    except RecursionError:
        st.oracle_fail(label, req, clause, "writer raises RecursionError")
        return
    except Exception as e:  # noqa: BLE001
        st.oracle_fail(label, req, clause, "writer raises " + spec.exn_name(e))
        return
    try:
        back = spec.dump_fm(_quiet(lambda: Reader(path).transform()))
    except RecursionError:
        st.oracle_fail(label, req, clause, "reader raises RecursionError on the writer's output")
        return
    except Exception as e:  # noqa: BLE001
        st.oracle_fail(label, req, clause, "reader rejects the writer's output: " + spec.exn_name(e))
        return
    diffs = same(m, back)
    if diffs:
        st.oracle_fail(label, req, clause, "; ".join(diffs[:3])[:300])
    st.record(label, req, "done", "done")


def _chain(depth, prefix="D"):
    f = spec.F(f"{prefix}{depth}")
    for i in range(depth - 1, -1, -1):
        f = spec.F(f"{prefix}{i}", [spec.R(1, 1, [f])])
    return dict(root=f, ctcs=[])


def _same_tree(m, back):
    d = fmt.spec_equal(m, back)
    if len(back["ctcs"]) != len(m["ctcs"]):
        d.append(f"{len(back['ctcs'])} constraints instead of {len(m['ctcs'])}")
    return d


def run_c01_known(ctx):
    from flamapy.metamodels.fm_metamodel.transformations import UVLWriter, UVLReader
    st = ctx.suite("R-uvl-known-models")
    sc = fmt.Scratch()
    F, R, A = spec.F, spec.R, spec.A
    try:
        def m_names(a, b):
            return dict(root=F("Root", [R(0, 1, [F(a)]), R(1, 1, [F(b)])]), ctcs=[("c", OP("IMPLIES", T("Root"), T(b)))])
        cases = [
            (None, "control:quoted names", m_names("it's", "x y")),
            ("uvl-name-starting-with-apostrophe", "feature named 'q'", m_names("'q'", "B")),
            ("uvl-name-starting-with-apostrophe", "feature named 'x used in a constraint", m_names("A", "'x")),
            (None, "control:string value", dict(root=F("Root", attrs=[A("version", default="1_5")]), ctcs=[])),
            ("uvl-string-value-with-dot-or-line-break", "string value '1.5'",
             dict(root=F("Root", attrs=[A("version", default="1.5")]), ctcs=[])),
            ("uvl-string-value-with-dot-or-line-break", "string value www.example.org in a list",
             dict(root=F("Root", attrs=[A("urls", default=["www.example.org", "x"])]), ctcs=[])),
            ("uvl-string-value-with-dot-or-line-break", "string value with a line break",
             dict(root=F("Root", attrs=[A("note", default="two\nlines")]), ctcs=[])),
        ]
        for key, label, m in cases:
            _roundtrip(st, sc, key, label, m, UVLWriter, UVLReader, "uvl", _same_tree)
    finally:
        sc.close()


def run_c02_known(ctx):
    """models returned by a reader that the rest of the library cannot consume"""
    from flamapy.metamodels.fm_metamodel.transformations import UVLReader, JSONWriter, FeatureIDEWriter, JSONReader
    st = ctx.suite("R-known-consumers")
    sc = fmt.Scratch()
    try:
        docs = [
            (None, "control:two-argument aggregate", "features\n    A {price 1}\n        optional\n            B {price 2}\nconstraints\n    avg(price, A) > 3\n"),
            ("core-pretty-str-one-argument-aggregate", "len(X) read by UVLReader, written by JSONWriter",
             "features\n    A\n        optional\n            String X\nconstraints\n    len(X) > 3\n"),
            ("core-pretty-str-one-argument-aggregate", "sum(price) read by UVLReader, written by JSONWriter",
             "features\n    A {price 1}\n        optional\n            B {price 2}\nconstraints\n    sum(price) > 3\n"),
        ]
        for key, label, text in docs:
            clause = f"known:{key}:{label}" if key else label
            path = sc.path("uvl")
            with open(path, "w", encoding="utf-8") as fh:
                fh.write(text)
            try:
                fm = _quiet(lambda: UVLReader(path).transform())
            except Exception as e:  # noqa: BLE001
                st.oracle_fail(label, sx.dumps(text), clause, "reader raises " + spec.exn_name(e))
                continue
            for W, ext in ((JSONWriter, "json"), (FeatureIDEWriter, "xml")):
                try:
                    _quiet(lambda: W(sc.path(ext), fm).transform())
                except Exception as e:  # noqa: BLE001
                    st.oracle_fail(label, sx.dumps(text), clause, f"{W.__name__} cannot traverse the constraint: {spec.exn_name(e)}")
                    break
            st.record(label, sx.dumps(text), "done", "done")
        # a name starting with an apostrophe is taken for a string literal by Constraint.get_features
        from flamapy.metamodels.fm_metamodel.transformations import JSONReader as JR
        for key, label, a in [(None, "control:name with an inner apostrophe", "n'Feature"),
                              ("get-features-drops-names-starting-with-apostrophe", "feature named 'n Feature", "'n Feature")]:
            clause = f"known:{key}:{label}" if key else label
            m = dict(root=spec.F("Root", [spec.R(0, 1, [spec.F(a)]), spec.R(0, 1, [spec.F("B")])]),
                     ctcs=[("c", OP("IMPLIES", T(a), T("B")))])
            path = sc.path("json")
            _quiet(lambda: JSONWriter(path, spec.build_fm(m)).transform())
            fm = _quiet(lambda: JR(path).transform())
            got = sorted(fm.get_constraints()[0].get_features())
            if got != sorted([a, "B"]):
                st.oracle_fail(label, sx.dumps(tag("json", spec.fm_sx(m))), clause, f"get_features() = {got}")
            st.record(label, sx.dumps(tag("json", spec.fm_sx(m))), "done", "done")
    finally:
        sc.close()


def run_c11_known(ctx):
    """the Clafer writer's naming / literal layer: names and string values that its quoting convention cannot protect"""
    import suite_export as se
    from flamapy.metamodels.fm_metamodel.transformations import ClaferWriter
    st = ctx.suite("W-clafer-known")
    F, R, A = spec.F, spec.R, spec.A
    key = "clafer-writer-names-and-literals-not-made-safe"

    def two(a, b="B", attrs=()):
        return dict(root=F("Root", [R(0, 1, [F(a, attrs=list(attrs))]), R(0, 1, [F(b)])]), ctcs=[("c", OP("IMPLIES", T(a), T(b)))])
    cases = [
        (None, "control:quoted name", two("two words")),
        (None, "control:string value", two("A", attrs=[A("s", default="plain text")])),
        (key, "double quote inside a name", two('a"b')),
        (key, "line break inside a name", two("a\nb")),
        (key, "name made of digits", two("123")),
        (key, "feature called like the instance CP", two("CP")),
        (key, "double quote inside a string value", two("A", attrs=[A("s", default='he said "hi"')])),
        (key, "line break inside a string value", two("A", attrs=[A("s", default='v"]\n[A || "A')])),
    ]
    # the export declares every attribute name once, with one type: two features carrying the same attribute name with
    # values of different types (the AFM reader returns such models) give a declaration that one of the uses contradicts
    key2 = "clafer-attribute-declared-once-with-one-type"

    def typed(v1, v2):
        return dict(root=F("Root", [R(0, 1, [F("A", attrs=[A("cost", default=v1)])]), R(0, 1, [F("B", attrs=[A("cost", default=v2)])])]),
                    ctcs=[])
    cases += [(None, "control:one type per attribute name", typed(2, 3)),
              (key2, "integer and real value under one attribute name", typed(1.5, 2)),
              (key2, "string and integer value under one attribute name", typed(1, "one"))]
    for k, label, m in cases:
        clause = f"known:{k}:{label}" if k else label
        req = sx.dumps(tag("clafer_text", spec.fm_sx(m)))
        try:
            text = _quiet(lambda: ClaferWriter(None, spec.build_fm(m)).transform())
        except Exception as e:  # noqa: BLE001
            st.oracle_fail(label, req, clause, "writer raises " + spec.exn_name(e))
            continue
        names, _tree_ok, full_ok = se.brute_force(m)
        try:
            got, exported, decls, uses = se.clafer_configs(text, names)
            ok = se.same_sets(got, full_ok) and set(names) <= exported
            detail = f"export admits {len(got)} configurations, model has {len(full_ok)}; names exported {sorted(exported)[:6]}"
        except Exception as e:  # noqa: BLE001
            ok, detail = False, f"export not in the target syntax: {type(e).__name__}: {e}"[:200]
        if not ok:
            st.oracle_fail(label, req, clause, detail)
        st.record(label, req, "done", "done")


def run_c09_known(ctx):
    """AFM documents that differ from a readable one only by harmless blanks"""
    from flamapy.metamodels.fm_metamodel.transformations import AFMReader
    st = ctx.suite("R-afm-known")
    sc = fmt.Scratch()
    key = "afm-grammar-rejects-harmless-blanks"
    plain = "%Relationships\nA : [B] [1,2]{C D};\n\n%Attributes\nB.cost: Integer [1 to 2],1,2;\n\n%Constraints\nB REQUIRES C;\n"
    docs = [(None, "control", plain),
            (key, "blank before the semicolon of a line ending with a group", plain.replace("{C D};", "{C D} ;")),
            (key, "blank after the comma of a cardinality", plain.replace("[1,2]{", "[1, 2]{")),
            (key, "blanks inside the brackets of an optional child", plain.replace("[B]", "[ B ]")),
            (key, "blanks after the commas of an attribute line", plain.replace("],1,2;", "], 1, 2;"))]
    try:
        expected = None
        for k, label, text in docs:
            clause = f"known:{k}:{label}" if k else label
            path = sc.path("afm")
            with open(path, "w", encoding="utf-8") as fh:
                fh.write(text)
            try:
                back = spec.dump_fm(_quiet(lambda: AFMReader(path).transform()))
            except Exception as e:  # noqa: BLE001
                st.oracle_fail(label, sx.dumps(text), clause, "valid document rejected: " + spec.exn_name(e))
                st.record(label, sx.dumps(text), "done", "done")
                continue
            if expected is None:
                expected = back
            elif sx.dumps(spec.fm_sx(back)) != sx.dumps(spec.fm_sx(expected)):
                st.oracle_fail(label, sx.dumps(text), clause, "a different model than without the blanks")
            st.record(label, sx.dumps(text), "done", "done")
        # a STRING literal denotes the characters between its quotation marks (INT and DOUBLE literals are converted)
        key2 = "afm-reader-keeps-the-quotation-marks-of-string-literals"
        text = plain.replace("B.cost: Integer [1 to 2],1,2;", 'B.vendor: ["android","i os"],"android","";')
        path = sc.path("afm")
        with open(path, "w", encoding="utf-8") as fh:
            fh.write(text)
        label = "string literals in an enumerated domain"
        try:
            fm = _quiet(lambda: AFMReader(path).transform())
            attr = next(a for f in fm.get_features() for a in f.get_attributes())
            got = (list(attr.get_domain().get_element_list()), attr.get_default_value(), attr.get_null_value())
            if got != (["android", "i os"], "android", ""):
                st.oracle_fail(label, sx.dumps(text), f"known:{key2}:{label}", f"read as {got!r}")
        except Exception as e:  # noqa: BLE001
            st.oracle_fail(label, sx.dumps(text), f"known:{key2}:{label}", "valid document rejected: " + spec.exn_name(e))
        st.record(label, sx.dumps(text), "done", "done")
    finally:
        sc.close()


def run_c10_known(ctx):
    """names the SPLOT / propositional writers do not make safe for their formats"""
    import xml.etree.ElementTree as ET
    import suite_export as se
    from flamapy.metamodels.fm_metamodel.transformations import SPLOTWriter
    from flamapy.metamodels.fm_metamodel.transformations.pl_writer import PLWriter
    st = ctx.suite("W-export-known")
    F, R = spec.F, spec.R
    key = "splot-pl-writers-names-not-made-safe"

    def free(names, ctcs):
        return dict(root=F("R", [R(0, 1, [F(n)]) for n in names]), ctcs=[(f"c{i}", c) for i, c in enumerate(ctcs)])
    cases = [
        (None, "splot", "control:quoted name", free(["my feat", "B"], [OP("IMPLIES", T("my feat"), T("B"))])),
        (None, "splot", "control:ampersand and angle brackets in names (XML)", free(["a&b", "<x>"], [OP("IMPLIES", T("a&b"), T("<x>"))])),
        (key, "splot", "name starting with a minus sign", free(["A", "-A", "B"], [OP("IMPLIES", T("B"), T("-A"))])),
        (key, "splot", "double quote inside a name", free(["x y", "z w", 'x y" or "z w'], [T('x y" or "z w')])),
        (None, "pl", "control:plain names", free(["A", "B"], [OP("OR", T("A"), T("B"))])),
        (key, "pl", "name containing an operator word", free(["A", "B", "A or B"], [T("A or B")])),
        (key, "pl", "name containing a blank", free(["my feat", "B"], [OP("IMPLIES", T("my feat"), T("B"))])),
    ]
    for k, fmt_, label, m in cases:
        clause = f"known:{k}:{fmt_}: {label}" if k else f"{fmt_}: {label}"
        req = sx.dumps(tag("export", fmt_, spec.fm_sx(m)))
        W = SPLOTWriter if fmt_ == "splot" else PLWriter
        try:
            text = _quiet(lambda: W(None, spec.build_fm(m)).transform())
        except Exception as e:  # noqa: BLE001
            st.oracle_fail(label, req, clause, "writer raises " + spec.exn_name(e))
            continue
        names, _tree_ok, full_ok = se.brute_force(m)
        ok, detail = True, ""
        try:
            if fmt_ == "splot":
                ET.fromstring(text.encode("utf-8"))          # SXFM is an XML document
                got, exported = se.sxfm_configs(text, names)
            else:
                got, exported = se.exp_configs(text, names)
            if not se.same_sets(got, full_ok) or not set(names) <= exported:
                ok, detail = False, f"export admits {len(got)} configurations, model has {len(full_ok)}; exported names {sorted(exported)[:6]}"
        except Exception as e:  # noqa: BLE001
            ok, detail = False, f"export not in the target syntax: {type(e).__name__}: {e}"[:200]
        if not ok:
            st.oracle_fail(label, req, clause, detail)
        st.record(label, req, "done", "done")


def run_c20_known(ctx):
    """constraints are compared by their printed text"""
    st = ctx.suite("Q2-known")
    key = "constraint-equality-by-printed-text"
    F, R = spec.F, spec.R

    def m(operand):
        return dict(root=F("R", [R(0, 1, [F("A", type="Integer")]), R(0, 1, [F("1")]), R(0, 1, [F("B")])]),
                    ctcs=[("c", OP("EQUALS", T("A"), operand))])
    one_int = (("i", 1), None, None)
    cases = [(None, "control:two different names", m(T("B")), m(T("1"))),
             (key, "the integer 1 against the feature named 1", m(one_int), m(T("1"))),
             (key, "the float 1.5 against a name spelt 1.5", m((("fl", 1.5), None, None)), m(T("1.5")))]
    for k, label, a, b in cases:
        clause = f"known:{k}:{label}" if k else label
        req = sx.dumps(tag("eqq", spec.fm_sx(a), spec.fm_sx(b)))
        fa, fb = spec.build_fm(a), spec.build_fm(b)
        if fa == fb or fb == fa:
            st.oracle_fail(label, req, clause, "models differing in one constraint operand compare equal")
        st.record(label, req, "done", "done")
