"""Suite L (C03, "built through the public constructors"): feature OBJECTS and the public calls that link them.

A sequence of calls — Feature(name, parent=...), f.add_relation(Relation(p, children, a, b)), del f.relations[k],
f.relations[k].add_child(c), c.parent = p — is run on the implementation and on the heap model (coq/Model/Heap.v,
request heap_run); the whole object graph (fields by object identity) and the answers of the queries that follow
the parent pointer are compared.  Most sequences respect the guards of Theorem C03_construction_linked (a feature is
put into a relation only while no relation holds it, subtrees are MOVED by removing the old relation first); a share
does not (features held twice, relations naming another parent): the model is total, so these are compared too.
Oracle, independent of the model: after a guarded sequence the objects are linked (a relation's parent is the
feature holding it, every child's parent is that feature) and, where sibling names are distinct, Feature.is_mandatory /
is_optional say what the holding relation says."""
import sx
from sx import Sym, tag


class Mirror:
    """just enough bookkeeping to generate sequences and to know whether their guards hold"""

    def __init__(self):
        self.parent = []
        self.rels = []
        self.ok = True

    def occurs(self, c):
        return any(c in r[3] for rs in self.rels for r in rs)

    def apply(self, op):
        k = op[0]
        if k == "new":
            self.parent.append(op[2])
            self.rels.append([])
        elif k == "addrel":
            _, f, rp, mn, mx, cs = op
            if rp != f or any(self.occurs(c) for c in cs) or len(set(cs)) != len(cs):
                self.ok = False
            self.rels[f].append([rp, mn, mx, list(cs)])
            for c in cs:
                self.parent[c] = f
        elif k == "delrel":
            _, f, i = op
            del self.rels[f][i]
        elif k == "addchild":
            _, f, i, c = op
            if self.occurs(c) or self.parent[c] != f:
                self.ok = False
            self.rels[f][i][3].append(c)
        elif k == "setparent":
            _, c, p = op
            if self.occurs(c):
                self.ok = False
            self.parent[c] = p


def gen_sequence(rng, guarded, twins):
    m = Mirror()
    ops = []

    def emit(op):
        ops.append(op)
        m.apply(op)
    n_names = 0

    def fresh_name():
        nonlocal n_names
        n_names += 1
        if twins and n_names > 2 and rng.random() < 0.3:
            return f"F{rng.randrange(1, n_names)}"          # a name that is taken already
        return f"F{n_names}"
    emit(("new", fresh_name(), None))
    for _ in range(rng.randint(3, 18)):
        n = len(m.parent)
        free = [c for c in range(1, n) if not m.occurs(c)]
        with_rels = [f for f in range(n) if m.rels[f]]
        roll = rng.random()
        if roll < 0.30 or n < 3:
            p = rng.choice([None, None, rng.randrange(n)])
            emit(("new", fresh_name(), p))
        elif roll < 0.62:
            f = rng.randrange(n)
            if rng.random() < 0.15:
                # a relation attached while it is still empty (filled later with add_child), possibly a second one with
                # the same bounds under the same feature
                emit(("addrel", f, f, *rng.choice([(0, 1), (1, 1), (1, 2)]), []))
                if rng.random() < 0.5:
                    emit(("addrel", f, f, *m.rels[f][-1][1:3], []))
                continue
            if guarded:
                pool = [c for c in free if c != f]
                if not pool:
                    continue
                cs = rng.sample(pool, rng.randint(1, min(3, len(pool))))
                rp = f
            else:
                cs = [rng.randrange(n) for _ in range(rng.randint(1, 3))]
                rp = rng.choice([f, f, rng.randrange(n)])
            k = len(cs)
            a, b = rng.choice([(1, 1), (0, 1), (1, k), (0, k), (k, k), (0, 0), (1, -1)])
            emit(("addrel", f, rp, a, b, cs))
        elif roll < 0.72 and with_rels:
            f = rng.choice(with_rels)
            emit(("delrel", f, rng.randrange(len(m.rels[f]))))
        elif roll < 0.84 and with_rels:
            # move: take the children of a relation away from their parent and give them to another feature
            f = rng.choice(with_rels)
            i = rng.randrange(len(m.rels[f]))
            cs = list(m.rels[f][i][3])
            emit(("delrel", f, i))
            g = rng.randrange(n)
            cs = [c for c in dict.fromkeys(cs) if c != g and not m.occurs(c)] if guarded else cs
            if cs:
                emit(("addrel", g, g, rng.choice([0, 1]), 1 if len(cs) == 1 else len(cs), cs))
        elif roll < 0.93 and with_rels:
            f = rng.choice(with_rels)
            i = rng.randrange(len(m.rels[f]))
            if guarded:
                pool = [c for c in free if c != f]
                if not pool:
                    continue
                c = rng.choice(pool)
                emit(("setparent", c, f))
            else:
                c = rng.randrange(n)
            emit(("addchild", f, i, c))
        else:
            if guarded:
                if not free:
                    continue
                c = rng.choice(free)
            else:
                c = rng.randrange(n)
            emit(("setparent", c, rng.choice([None, rng.randrange(n)])))
    return ops, m


def op_sx(op):
    k = op[0]
    if k == "new":
        return [Sym("new"), op[1], op[2]]
    if k == "addrel":
        return [Sym("addrel"), op[1], op[2], op[3], op[4], list(op[5])]
    if k == "delrel":
        return [Sym("delrel"), op[1], op[2]]
    if k == "addchild":
        return [Sym("addchild"), op[1], op[2], op[3]]
    return [Sym("setparent"), op[1], op[2]]


def run_impl(ops):
    from flamapy.metamodels.fm_metamodel.models import Feature, Relation
    objs = []
    for op in ops:
        k = op[0]
        if k == "new":
            objs.append(Feature(op[1], parent=None if op[2] is None else objs[op[2]]))
        elif k == "addrel":
            _, f, rp, mn, mx, cs = op
            # the relation object is complete before it is attached — given all its children at construction, or created
            # with the first / with none and filled through Relation.add_child / Relation.children before add_relation:
            # three public ways to the same call sequence as far as the model is concerned
            way = (f + mn + 2 * len(cs)) % 3 if len(cs) > 0 else 0
            if way == 0:
                rel = Relation(objs[rp], [objs[c] for c in cs], mn, mx)
            elif way == 1:
                rel = Relation(objs[rp], [objs[cs[0]]], mn, mx)
                for c in cs[1:]:
                    rel.add_child(objs[c])
            else:
                rel = Relation(objs[rp], [], mn, mx)
                for c in cs:
                    rel.children.append(objs[c])
            objs[f].add_relation(rel)
        elif k == "delrel":
            del objs[op[1]].relations[op[2]]
        elif k == "addchild":
            objs[op[1]].relations[op[2]].add_child(objs[op[3]])
        else:
            objs[op[1]].parent = None if op[2] is None else objs[op[2]]
    return objs


def dump_impl(objs):
    idx = {id(o): i for i, o in enumerate(objs)}

    def ix(o):
        return None if o is None else idx[id(o)]
    out = []
    for o in objs:
        rels = [tag("r", ix(r.parent), r.card_min, r.card_max, [ix(c) for c in r.children]) for r in o.get_relations()]
        out.append(tag("f", o.name, ix(o.get_parent()), rels, [ix(c) for c in o.get_children()],
                       bool(o.is_root()), bool(o.is_leaf()), bool(o.is_mandatory()), bool(o.is_optional())))
    return out


def oracle(objs):
    """linked objects, and pointer-following predicates equal to the relation's own"""
    fails = []
    for f in objs:
        kids = [c for r in f.get_relations() for c in r.children]
        distinct = len({c.name for c in kids}) == len(kids)
        for r in f.get_relations():
            if r.parent is not f:
                fails.append(("linked:relation-parent", f.name))
            for c in r.children:
                if c.get_parent() is not f or c.is_root():
                    fails.append(("linked:child-parent", f"{c.name} under {f.name}"))
                elif distinct:
                    if bool(c.is_mandatory()) != bool(r.is_mandatory()):
                        fails.append(("predicate:is_mandatory", f"{c.name} under {f.name}"))
                    if bool(c.is_optional()) != bool(r.is_optional()):
                        fails.append(("predicate:is_optional", f"{c.name} under {f.name}"))
    return fails


def run(ctx):
    st = ctx.suite("L")
    g = ctx.gen
    n = 400 if ctx.tier == "quick" else 12000
    for i in range(n):
        guarded = (i % 5) != 4
        twins = (i % 3) == 2
        ops, mirror = gen_sequence(g.rng, guarded, twins)
        label = ("guarded" if mirror.ok else "unguarded") + ("-twins" if twins else "")
        g.count("heap_sequence", label)
        g.count("heap_ops", len(ops))
        req = sx.dumps(tag("heap_run", [op_sx(o) for o in ops]))
        mrep = ctx.model.call_raw(req)
        try:
            objs = run_impl(ops)
            irep = sx.dumps(tag("heap", mirror.ok, dump_impl(objs)))
        except RecursionError:
            raise
        except Exception as e:  # noqa: BLE001
            objs = None
            irep = f"(raises {type(e).__name__})"
        st.record(label, req, irep, mrep, nontrivial=len(ops) >= 4)
        if objs is None:
            st.oracle_fail(label, req, "raises", irep)
        elif mirror.ok:
            for clause, detail in oracle(objs):
                st.oracle_fail(label, req, clause, detail)
