"""Suites W-splot / W-pl / W-clafer and the C10 / C11 oracles: independent interpreters of the three
exported texts, evaluated over all 2^n selections against an independent enumerator of the model."""
import itertools
import re

import fmt
import gen
import spec
import sx
from sx import Sym, tag
from spec import T, OP
from suite_json import impl_write, same_spec
from suite_o import brute_force

gen.NAME_CLASSES["exp_names"] = ["A", "B", "Car", "x1", "_u", "9lives", "ñandú", "特徴", "Größe", "a-b", "k:v", "q?", "p%", "NOT", "AND", "Or1"]
SPLOT_NAMES = ("plain", "space", "punct", "keyword", "lead", "nonascii", "long")
KINDS = ("mandatory", "optional", "alternative", "or", "mutex", "card", "nn", "zero", "star")
CLAFER_KEYWORDS = {"xor", "or", "mux", "not", "abstract"}
gen.NAME_CLASSES["clafer_kw"] = ["xor", "or", "mux", "not", "abstract", "Xor", "NOT", "true", "false", "integer", "double", "string",
                                 "boolean"]


# ------------------------------------------------------------------------------ SXFM interpreter
def split_quoted(s):
    """tokens separated by blanks, a double-quoted token may contain blanks"""
    out, i = [], 0
    while i < len(s):
        if s[i] == " ":
            i += 1
        elif s[i] == '"' or s[i:i + 2] == '~"':
            k = i + (1 if s[i] == '"' else 2)
            j = s.index('"', k)
            out.append(s[i:j + 1])
            i = j + 1
        else:
            j = i
            while j < len(s) and s[j] != " ":
                j += 1
            out.append(s[i:j])
            i = j
    return out


def unq(t):
    return t[1:-1] if len(t) >= 2 and t[0] == '"' and t[-1] == '"' else t


def parse_sxfm(text):
    import xml.etree.ElementTree as ET
    from xml.sax.saxutils import unescape
    ET.fromstring(text.encode("utf-8"))          # SXFM is an XML document: it must be well-formed
    lines = [unescape(ln) for ln in text.split("\n")]
    a, b = lines.index("<feature_tree>"), lines.index("</feature_tree>")
    c, d = lines.index("<constraints>"), lines.index("</constraints>")
    nodes = []          # (depth, kind, payload)
    for ln in lines[a + 1:b]:
        depth = len(ln) - len(ln.lstrip("\t"))
        body = ln.lstrip("\t")
        kind, _, rest = body.partition(" ")
        if kind == ":g":
            lo, hi = rest.strip()[1:-1].split(",")
            nodes.append((depth, "g", (int(lo), hi)))
        else:
            x = rest[:(len(rest) - 3) // 2]
            assert rest == f"{x} ({x})", rest
            nodes.append((depth, {":r": "r", ":m": "m", ":o": "o", ":": "c"}[kind], unq(x)))
    # build the tree: the parent of a line is the nearest earlier line one level up
    tree = []
    stack = []
    for depth, kind, payload in nodes:
        node = dict(kind=kind, payload=payload, kids=[])
        while stack and stack[-1][0] >= depth:
            stack.pop()
        if stack:
            stack[-1][1]["kids"].append(node)
        else:
            tree.append(node)
        stack.append((depth, node))
    clauses = []
    for ln in lines[c + 1:d]:
        body = ln.strip().split(": ", 1)[1]
        lits = [t for t in split_quoted(body) if t != "or"]
        clauses.append([(t.startswith("~"), unq(t[1:] if t.startswith("~") else t)) for t in lits])
    return tree[0], clauses


def sxfm_names(node):
    out = [node["payload"]] if node["kind"] != "g" else []
    for k in node["kids"]:
        out += sxfm_names(k)
    return out


def sxfm_eval(node, sel):
    """node is a selected feature"""
    for k in node["kids"]:
        if k["kind"] == "g":
            lo, hi = k["payload"]
            cnt = sum(1 for c in k["kids"] if c["payload"] in sel)
            hi = len(k["kids"]) if hi == "*" else int(hi)
            if not lo <= cnt <= hi:
                return False
            for c in k["kids"]:
                if c["payload"] in sel:
                    if not sxfm_eval(c, sel):
                        return False
                elif any(n in sel for n in sxfm_names(c)):
                    return False
        else:
            name = k["payload"]
            if name in sel:
                if not sxfm_eval(k, sel):
                    return False
            else:
                if k["kind"] == "m" or any(n in sel for n in sxfm_names(k)):
                    return False
    return True


def sxfm_configs(text, names):
    root, clauses = parse_sxfm(text)
    out = []
    for bits in itertools.product((False, True), repeat=len(names)):
        sel = frozenset(n for n, b in zip(names, bits) if b)
        if root["payload"] not in sel or not sxfm_eval(root, sel):
            continue
        if all(any((n not in sel) if neg else (n in sel) for neg, n in cl) for cl in clauses):
            out.append(sel)
    return out, set(sxfm_names(root))


# ------------------------------------------------------------------------------ .exp interpreter
def exp_tokens(s):
    return re.findall(r"\(|\)|<->|->|[^\s()]+", s)


def exp_parse(tokens):
    pos = [0]

    def peek():
        return tokens[pos[0]] if pos[0] < len(tokens) else None

    def take():
        pos[0] += 1
        return tokens[pos[0] - 1]

    def iff():
        a = imp()
        while peek() == "<->":
            take()
            a = ("iff", a, imp())
        return a

    def imp():
        a = disj()
        if peek() == "->":
            take()
            return ("imp", a, imp())
        return a

    def disj():
        a = conj()
        while peek() == "or":
            take()
            a = ("or", a, conj())
        return a

    def conj():
        a = neg()
        while peek() == "and":
            take()
            a = ("and", a, neg())
        return a

    def neg():
        if peek() == "not":
            take()
            return ("not", neg())
        if peek() == "(":
            take()
            a = iff()
            assert take() == ")"
            return a
        return ("var", take())
    t = iff()
    assert pos[0] == len(tokens), tokens
    return t


def exp_eval(t, sel):
    k = t[0]
    if k == "var":
        return t[1] in sel
    if k == "not":
        return not exp_eval(t[1], sel)
    a, b = exp_eval(t[1], sel), exp_eval(t[2], sel)
    return {"and": a and b, "or": a or b, "imp": (not a) or b, "iff": a == b}[k]


def exp_vars(t):
    return {t[1]} if t[0] == "var" else set().union(*[exp_vars(x) for x in t[1:]])


def exp_configs(text, names):
    trees = [exp_parse(exp_tokens(ln)) for ln in text.split("\n")]
    out = []
    for bits in itertools.product((False, True), repeat=len(names)):
        sel = frozenset(n for n, b in zip(names, bits) if b)
        if all(exp_eval(t, sel) for t in trees):
            out.append(sel)
    return out, set().union(*[exp_vars(t) for t in trees])


# ------------------------------------------------------------------------------ Clafer interpreter
def parse_clafer(text):
    lines = text.split("\n")
    start = next(i for i, ln in enumerate(lines) if ln.startswith("abstract ") and ln != "abstract AttributedFeature")
    decls = []
    decl_types = {}
    if lines[0] == "abstract AttributedFeature":
        for ln in lines[1:start]:
            if ln.startswith("\t"):
                dt = split_quoted(ln.strip())
                decls.append(dt[0])
                decl_types[dt[0]] = dt[2] if len(dt) > 2 else ""
    feats, ctcs, attr_uses = [], [], []
    stack = []
    root = None
    i = start
    while i < len(lines):
        ln = lines[i]
        i += 1
        if ln == "" or ln.startswith("CP : "):
            continue
        depth = len(ln) - len(ln.lstrip("\t"))
        body = ln.lstrip("\t")
        if body.startswith("["):
            inner = body[1:-1]
            if depth == 0:
                ctcs.append(inner)
            else:
                ut = split_quoted(inner)
                attr_uses.append(ut[0])
                # the value must have the type the attribute was declared with
                lit = inner.split(" = ", 1)[1] if " = " in inner else ""
                if lit in ("true", "false"):
                    ty = "boolean"
                elif re.fullmatch(r"-?[0-9]+", lit):
                    ty = "integer"
                elif re.fullmatch(r"-?[0-9]+\.[0-9]+(e-?[0-9]+)?", lit):
                    ty = "double"         # Clafer's double literal: digits, a point, digits, an optional exponent without "+"
                elif lit == "":
                    ty = ""
                else:
                    ty = "string"
                if ut[0] in decl_types and decl_types[ut[0]] != ty:
                    raise ValueError(f"attribute {ut[0]}: value {lit!r} does not have the declared type {decl_types[ut[0]]!r}")
            continue
        if i - 1 == start:
            body = body[len("abstract "):]
        toks = split_quoted(body)
        optional = False
        if toks and toks[-1] == "?":
            optional = True
            toks = toks[:-1]
        if len(toks) >= 2 and toks[-2:] == [":", "AttributedFeature"]:
            toks = toks[:-2]
        group = None
        if len(toks) == 2:
            group, name = toks
        else:
            (name,) = toks
        node = dict(name=unq(name), group=group, optional=optional, kids=[])
        while stack and stack[-1][0] >= depth:
            stack.pop()
        if stack:
            stack[-1][1]["kids"].append(node)
        else:
            root = node
        stack.append((depth, node))
    return root, ctcs, decls, attr_uses


def clafer_names(n):
    return [n["name"]] + [x for k in n["kids"] for x in clafer_names(k)]


def clafer_eval(n, sel):
    kids = n["kids"]
    cnt = sum(1 for k in kids if k["name"] in sel)
    g = n["group"]
    if g == "0..*":
        g = None        # Clafer's default group cardinality, also when written out: children are 1..1 unless marked "?"
    if g is not None:
        if g == "xor":
            lo, hi = 1, 1
        elif g == "or":
            lo, hi = 1, len(kids)
        elif g == "mux":
            lo, hi = 0, 1
        else:
            a, b = g.split("..")
            lo, hi = int(a), (len(kids) if b == "*" else int(b))
        if not lo <= cnt <= hi:
            return False
    for k in kids:
        if k["name"] in sel:
            if not clafer_eval(k, sel):
                return False
        else:
            if any(x in sel for x in clafer_names(k)):
                return False
            if g is None and not k["optional"]:
                return False
    return True


def clafer_expr(s):
    toks = re.findall(r'"[^"]*"|\(|\)|&&|\|\||<=>|=>|[^\s()]+', s)
    pos = [0]

    def unary():
        t = toks[pos[0]]
        pos[0] += 1
        if t == "not":
            return ("not", unary())
        if t in ("true", "false"):          # bare: the Boolean literals, never a clafer
            return ("const", t == "true")
        if t == "(":
            e = expr()
            assert toks[pos[0]] == ")"
            pos[0] += 1
            return e
        return ("var", unq(t))

    def expr():
        a = unary()
        if pos[0] < len(toks) and toks[pos[0]] in ("&&", "||", "xor", "=>", "<=>"):
            op = toks[pos[0]]
            pos[0] += 1
            return (op, a, unary())
        return a
    e = expr()
    assert pos[0] == len(toks), toks
    return e


def clafer_ev(e, sel):
    if e[0] == "const":
        return e[1]
    if e[0] == "var":
        return e[1] in sel
    if e[0] == "not":
        return not clafer_ev(e[1], sel)
    a, b = clafer_ev(e[1], sel), clafer_ev(e[2], sel)
    return {"&&": a and b, "||": a or b, "xor": a != b, "=>": (not a) or b, "<=>": a == b}[e[0]]


def clafer_configs(text, names):
    root, ctcs, decls, uses = parse_clafer(text)
    exprs = [clafer_expr(c) for c in ctcs]
    out = []
    for bits in itertools.product((False, True), repeat=len(names)):
        sel = frozenset(n for n, b in zip(names, bits) if b)
        if root["name"] in sel and clafer_eval(root, sel) and all(clafer_ev(e, sel) for e in exprs):
            out.append(sel)
    return out, set(clafer_names(root)), decls, uses


# ------------------------------------------------------------------------------ suites
def same_sets(a, b):
    return sorted(map(sorted, a)) == sorted(map(sorted, b))


def has_xe(m):
    return any("(op XOR)" in sx.dumps(spec.node_sx(a)) or "(op EQUIVALENCE)" in sx.dumps(spec.node_sx(a)) for _, a in m["ctcs"])


def model_sets(ctx, m, key):
    rep = sx.loads(ctx.model.call_raw(sx.dumps(tag("export_sat", spec.fm_sx(m)))))
    q = {x[0]: x[1] for x in rep[1:]}
    v = q[key]
    return [frozenset(s) for s in v[1]] if v[0] == "ok" else None


def nest_ctcs():
    """every operator directly inside every operator, on either side (and under NOT), over three names"""
    A, B, C = T("A"), T("B"), T("C")
    bins = [o for o in gen.LOGICAL if o != "NOT"]
    for o2 in bins:
        yield OP("NOT", OP(o2, A, B))
        for o1 in bins:
            yield OP(o1, OP(o2, A, B), C)
            yield OP(o1, A, OP(o2, B, C))
            yield OP(o1, OP("NOT", A), OP(o2, B, OP("NOT", C)))
    for o1 in bins:
        yield OP(o1, A, B)
        yield OP(o1, OP("NOT", A), B)
        yield OP(o1, A, OP("NOT", B))
        yield OP(o1, B, A)


def free_model(ctc):
    base = spec.F("R", [spec.R(0, 1, [spec.F("A")]), spec.R(0, 1, [spec.F("B")]), spec.R(0, 1, [spec.F("C")])])
    return dict(root=base, ctcs=[("c0", ctc)])


def ctc_stream(ctx):
    """one constraint over a tree that leaves A, B, C free: its meaning is fully visible in the configurations"""
    for t in nest_ctcs():
        yield "nest-ctc", free_model(t)
    # two constraints of the same shape over names that differ only in letter case
    for o in ["REQUIRES", "EXCLUDES", "IMPLIES", "OR", "AND"]:
        base = spec.F("R", [spec.R(0, 1, [spec.F(n)]) for n in ("Xa", "xa", "Yb", "yb")])
        yield "case-twins", dict(root=base, ctcs=[("c0", OP(o, T("Xa"), T("Yb"))), ("c1", OP(o, T("xa"), T("yb")))])
        yield "case-twins", dict(root=base, ctcs=[("c0", OP(o, T("Xa"), T("Yb"))), ("c1", OP(o, T("Xa"), T("Yb")))])
        # three different constraints under one name (the name is a label, not a key)
        yield "same-name", dict(root=base, ctcs=[("rule", OP(o, T("Xa"), T("Yb"))), ("rule", OP(o, T("Yb"), T("yb"))),
                                                 ("rule", OP(o, T("yb"), T("Xa")))])
    # every bound pair of one group: [a..b] and [a..*] over one to four members, the first member with an optional child
    for k in (1, 2, 3, 4):
        for a in range(0, k + 1):
            for b in list(range(max(a, 1), k + 1)) + [-1]:
                kids = [spec.F(f"G{j}") for j in range(k)]
                kids[0]["rels"].append(spec.R(0, 1, [spec.F("Sub")]))
                yield "group-bounds", dict(root=spec.F("R", [spec.R(a, b, kids)]), ctcs=[])
    # numbered names past 9 (F1 is a prefix of F10), a decomposed name used in a constraint
    for m in gen.big_models(cardinal=False):
        if m["root"]["name"] == "Num":
            yield "numbered", dict(root=m["root"], ctcs=m["ctcs"][:4])
    base = spec.F("Shop", [spec.R(1, 3, [spec.F("Cafe\u0301"), spec.F("Tea"), spec.F("Juice")]), spec.R(0, 1, [spec.F("Terrace")])])
    yield "decomposed-name", dict(root=base, ctcs=[("c0", OP("IMPLIES", T("Terrace"), T("Cafe\u0301"))), ("c1", OP("EXCLUDES", T("Tea"), T("Juice")))])
    trees = list(gen.all_ctc_trees(["A", "B", "C"], gen.LOGICAL, 2))
    step = max(1, len(trees) // (150 if ctx.tier == "quick" else 6000))
    for t in trees[ctx.gen.rng.randrange(step)::step]:
        yield "exh-ctc", free_model(t)


def interpret(w, label, req, fn, *args):
    """run an interpreter of a target format on the implementation's output; output that is not in the
    format's syntax is a property failure, not a harness crash"""
    try:
        return fn(*args)
    except Exception as e:  # noqa: BLE001
        w.oracle_fail(label, req, "export-not-in-target-syntax", f"{type(e).__name__}: {e}"[:300])
        return None


def run_splot(ctx):
    from flamapy.metamodels.fm_metamodel.transformations import SPLOTWriter
    w = ctx.suite("W-splot")
    s = ctx.suite("S-splot")
    g = ctx.gen
    sc = fmt.Scratch()

    def one(label, m, nontrivial):
        req = sx.dumps(tag("splot_text", spec.fm_sx(m)))
        mrep = ctx.model.call_raw(req)
        st, ret, data, after, path = impl_write(sc, m, SPLOTWriter, "sxfm")
        irep = sx.dumps(tag("ok", ret)) if st[0] == "ok" else sx.dumps(tag("err", Sym(st[1])))
        w.record(label, req, irep, mrep, nontrivial=nontrivial)
        if not same_spec(after, m):
            w.oracle_fail(label, req, "writer-modified-model", "")
        if st[0] != "ok":
            w.oracle_fail(label, req, "writer-raises", st[1])
            return
        if data.decode("utf-8") != ret:
            w.oracle_fail(label, req, "returned-differs-from-file", "")
        names, tree_ok, full_ok = brute_force(m)
        res = interpret(w, label, req, sxfm_configs, ret, names)
        if res is None:
            return
        got, exported = res
        if not set(names) <= exported:
            w.oracle_fail(label, req, "feature-missing-from-export", str(sorted(set(names) - exported)))
        if not same_sets(got, full_ok):
            w.oracle_fail(label, req, "xe:configurations-differ" if has_xe(m) else "configurations-differ",
                          f"export admits {len(got)}, model has {len(full_ok)}")
        # the model's own semantics of its document agrees with the independent interpreter of the text
        ms = model_sets(ctx, m, "splot")
        s.record(label, req, repr(sorted(map(sorted, got))), repr(sorted(map(sorted, ms))) if ms is not None else "err")
    try:
        for i in range(150 if ctx.tier == "quick" else 2500):
            n = g.rng.choice([1, 2, 3, 5, 8] if ctx.tier == "quick" else [1, 3, 6, 9, 11])
            one("boolean", g.model(n, kinds=KINDS, abstract=False, ctc_depth=2, name_classes=SPLOT_NAMES), n >= 2)
        for label, m in ctc_stream(ctx):
            one(label, m, True)
        # a feature called like the clause separator
        one("separator-name", dict(root=spec.F("or"), ctcs=[("c0", T("or"))]), True)
        one("separator-name", gen.free_model([OP("IMPLIES", T("or"), T("A")), OP("OR", T("OR"), OP("NOT", T("or")))],
                                             names=("or", "OR", "A")), True)
    finally:
        sc.close()


def exp_model(g, n):
    names = g.names(n, ("exp_names",))
    return g.model(n, names=names, kinds=KINDS, abstract=False, ctc_depth=2)


def run_pl(ctx):
    from flamapy.metamodels.fm_metamodel.transformations.pl_writer import PLWriter
    w = ctx.suite("W-pl")
    s = ctx.suite("S-pl")
    g = ctx.gen
    sc = fmt.Scratch()

    def one(label, m, nontrivial):
        req = sx.dumps(tag("pl_lines", spec.fm_sx(m)))
        mrep = sx.loads(ctx.model.call_raw(req))
        mcanon = sx.dumps([mrep[0], sorted(mrep[1])]) if mrep[0] == "ok" else sx.dumps(mrep)
        st, ret, data, after, path = impl_write(sc, m, PLWriter, "exp")
        irep = sx.dumps([Sym("ok"), sorted(ret.split("\n"))]) if st[0] == "ok" else sx.dumps(tag("err", Sym(st[1])))
        w.record(label, req, irep, mcanon, nontrivial=nontrivial)
        if not same_spec(after, m):
            w.oracle_fail(label, req, "writer-modified-model", "")
        if st[0] != "ok":
            w.oracle_fail(label, req, "writer-raises", st[1])
            return
        if data.decode("utf-8") != ret:
            w.oracle_fail(label, req, "returned-differs-from-file", "")
        names, tree_ok, full_ok = brute_force(m)
        res = interpret(w, label, req, exp_configs, ret, names)
        if res is None:
            return
        got, exported = res
        if not set(names) <= exported:
            w.oracle_fail(label, req, "feature-missing-from-export", str(sorted(set(names) - exported)))
        if not same_sets(got, full_ok):
            w.oracle_fail(label, req, "configurations-differ", f"export admits {len(got)}, model has {len(full_ok)}")
        ms = model_sets(ctx, m, "pl")
        s.record(label, req, repr(sorted(map(sorted, got))), repr(sorted(map(sorted, ms))) if ms is not None else "err")
    try:
        for i in range(150 if ctx.tier == "quick" else 2500):
            n = g.rng.choice([1, 2, 3, 5, 8] if ctx.tier == "quick" else [1, 3, 6, 9, 11])
            one("boolean", exp_model(g, n), n >= 2)
        for label, m in ctc_stream(ctx):
            one(label, m, True)
    finally:
        sc.close()


def clafer_model(g, n):
    """Clafer fragment: a feature's children are individually mandatory/optional, or one group"""
    rng = g.rng
    names = g.names(n + 5, ("plain", "space", "punct", "lead", "nonascii", "clafer_kw"))
    it = iter(names)
    root = spec.F(next(it))
    budget = [n - 1]

    def grow(f, depth):
        if budget[0] <= 0 or depth > 6:
            return
        style = rng.choice(["plain", "plain", "group"]) if budget[0] >= 2 else "plain"
        if style == "plain":
            for _ in range(min(budget[0], rng.randint(1, 3))):
                c = spec.F(next(it))
                budget[0] -= 1
                f["rels"].append(spec.R(rng.choice([0, 1]), 1, [c]))
        else:
            k = min(budget[0], rng.randint(2, 4))
            kids = [spec.F(next(it)) for _ in range(k)]
            budget[0] -= k
            kind = rng.choice(["alternative", "or", "mutex", "card", "star"])
            g.count("rel_kind", kind)
            a, b = {"alternative": (1, 1), "or": (1, k), "mutex": (0, 1)}.get(kind, (None, None))
            if kind == "card":
                a = rng.randint(0, k)
                b = rng.randint(max(a, 1), k)
                if (a, b) in ((1, 1), (1, k), (0, 1)):
                    a, b = 2, k
            if kind == "star":
                a, b = rng.randint(0, k), -1
                if a == 1:
                    a = 2
            f["rels"].append(spec.R(a, b, kids))
        for r in f["rels"]:
            for c in r["children"]:
                if rng.random() < 0.6:
                    grow(c, depth + 1)
    grow(root, 0)
    feats = list(spec.spec_features(root))
    for f in feats[1:]:
        if rng.random() < 0.2:
            f["abstract"] = True       # an abstract feature is still selectable: it must stay an ordinary clafer
    anames = g.names(3, ("plain", "space", "nonascii"))
    # one value type per attribute name: the export declares every attribute once, with one type
    pools = [[True, False], [3, -7, 0, 1], [1.5, 0.0, 1.0, -2.25, 1e16, 1e-05, 2.5e-07, 1e22, 123456789.125], ["txt", "two words", "true", "1"], [None]]
    pool_of = {an: rng.choice(pools) for an in anames}
    for f in feats:
        if rng.random() < 0.3:
            for an in rng.sample(anames, rng.randint(1, 2)):
                f["attrs"].append(spec.A(an, default=rng.choice(pool_of[an])))
    fnames = [f["name"] for f in feats]
    return dict(root=root, ctcs=g.ctcs(fnames, rng.choice([0, 1, 2, 3]), gen.LOGICAL, 2))


def run_clafer(ctx):
    from flamapy.metamodels.fm_metamodel.transformations import ClaferWriter
    w = ctx.suite("W-clafer")
    s = ctx.suite("S-clafer")
    g = ctx.gen
    sc = fmt.Scratch()

    def one(label, m, nontrivial):
        req = sx.dumps(tag("clafer_text", spec.fm_sx(m)))
        mrep = ctx.model.call_raw(req)
        st, ret, data, after, path = impl_write(sc, m, ClaferWriter, "txt")
        irep = sx.dumps(tag("ok", ret)) if st[0] == "ok" else sx.dumps(tag("err", Sym(st[1])))
        w.record(label, req, irep, mrep, nontrivial=nontrivial)
        if not same_spec(after, m):
            w.oracle_fail(label, req, "writer-modified-model", "")
        if st[0] != "ok":
            w.oracle_fail(label, req, "writer-raises", st[1])
            return
        if data.decode("utf-8") != ret:
            w.oracle_fail(label, req, "returned-differs-from-file", "")
        names, tree_ok, full_ok = brute_force(m)
        res = interpret(w, label, req, clafer_configs, ret, names)
        if res is None:
            return
        got, exported, decls, uses = res
        if not set(names) <= exported:
            w.oracle_fail(label, req, "feature-missing-from-export", str(sorted(set(names) - exported)))
        if not same_sets(got, full_ok):
            w.oracle_fail(label, req, "configurations-differ", f"export admits {len(got)}, model has {len(full_ok)}")
        if not set(uses) <= set(decls):
            w.oracle_fail(label, req, "attribute-used-but-not-declared-under-that-identifier", str(sorted(set(uses) - set(decls))))
        if re.search(r"\b(REQUIRES|EXCLUDES|IMPLIES|EQUIVALENCE|XOR|AND|OR|NOT)\b", "\n".join(parse_clafer(ret)[1])) and \
                not any(re.search(r"\b(REQUIRES|EXCLUDES|IMPLIES|EQUIVALENCE|XOR|AND|OR|NOT)\b", nme) for nme in names):
            w.oracle_fail(label, req, "untranslated-operator", "")
        ms = model_sets(ctx, m, "clafer")
        s.record(label, req, repr(sorted(map(sorted, got))), repr(sorted(map(sorted, ms))) if ms is not None else "err")
    try:
        for i in range(150 if ctx.tier == "quick" else 2500):
            n = g.rng.choice([1, 2, 3, 5, 8] if ctx.tier == "quick" else [1, 3, 6, 9, 11])
            one("fragment", clafer_model(g, n), n >= 2)
        for label, m in ctc_stream(ctx):
            one(label, m, True)
        # features and attributes called like the words the writer emits as keywords
        kw = gen.free_model([OP("XOR", T("not"), OP("OR", T("xor"), OP("NOT", T("or")))), OP("IMPLIES", T("mux"), T("abstract"))],
                            names=("not", "xor", "or", "mux", "abstract"))
        one("keyword-names", kw, True)
        kw2 = dict(root=spec.F("or", [spec.R(1, 1, [spec.F("xor"), spec.F("mux")]), ]), ctcs=[("c", OP("EXCLUDES", T("xor"), T("or")))])
        kw2["root"]["attrs"].append(spec.A("not", default=3))
        one("keyword-names", kw2, True)
    finally:
        sc.close()
