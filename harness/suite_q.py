"""Suite Q — every public query of Relation / Feature / FeatureModel on generated models (C03),
and the direct oracle for C03 written from the property text (independent of the Coq model)."""
import gen
import spec
import sx
from sx import Sym, tag


def _idx(lst, obj):
    for i, x in enumerate(lst):
        if x is obj:
            return i
    return None


def _names(fs):
    return [f.name for f in fs]


def _bits(bs):
    return Sym("".join("1" if b else "0" for b in bs))


def impl_queries(m):
    """the same (q ...) value the model's op_queries produces, computed through the public API"""
    import live
    fm = spec.build_fm(m)
    # asked first: a lookup of an absent name in build_queries could refresh whatever a lookup is answered from
    stale = [n for n in live.GHOST_NAMES if fm.get_feature_by_name(n) is not None]
    q = build_queries(fm)
    stale += [n for n in live.GHOST_NAMES + ("__never_there__",) if fm.get_feature_by_name(n) is not None]
    return q, spec.dump_fm(fm), stale


def build_queries(fm):
    feats = fm.get_features()
    rels = fm.get_relations()
    fq = []
    for f in feats:
        p = f.get_parent()
        flags = [f.is_root(), f.is_mandatory(), f.is_optional(), f.is_or_group(),
                 f.is_alternative_group(), f.is_mutex_group(), f.is_cardinality_group(),
                 f.is_group(), f.is_multiple_group_decomposition(), f.is_leaf(), f.is_boolean(),
                 f.is_numerical(), f.is_string(), f.is_multifeature(), f.is_empty()]
        fq.append([f.name, p.name if p is not None else None, _names(f.get_children()), _bits(flags)])
    rq = []
    for r in rels:
        flags = [r.is_mandatory(), r.is_optional(), r.is_or(), r.is_alternative(), r.is_mutex(),
                 r.is_cardinal(), r.is_group()]
        rq.append([r.parent.name, _names(r.children), r.card_min, r.card_max, _bits(flags), str(r)])
    listings = [
        tag("features", _names(feats)),
        tag("boolean", _names(fm.get_boolean_features())),
        tag("numerical", _names(fm.get_numerical_features())),
        tag("string", _names(fm.get_string_features())),
        tag("mandatory", _names(fm.get_mandatory_features())),
        tag("optional", _names(fm.get_optional_features())),
        tag("alternative_group", _names(fm.get_alternative_group_features())),
        tag("or_group", _names(fm.get_or_group_features())),
    ]
    lookup = []
    for n in _names(feats) + ["__no_such_feature__"]:
        lookup.append([n, _idx(feats, fm.get_feature_by_name(n))])

    def listing(fn):
        return spec.result_sx(fn, lambda cs: [_idx(fm.ctcs, c) for c in cs])
    ctcs = [
        tag("logical", listing(fm.get_logical_constraints)),
        tag("arithmetic", listing(fm.get_arithmetic_constraints)),
        tag("aggregations", listing(fm.get_aggregations_constraints)),
        tag("complex", listing(fm.get_complex_constraints)),
        tag("simple", listing(fm.get_simple_constraints)),
        tag("pseudocomplex", listing(fm.get_pseudocomplex_constraints)),
        tag("strictcomplex", listing(fm.get_strictcomplex_constraints)),
        tag("excludes", listing(fm.get_excludes_constraints)),
        tag("requires", listing(fm.get_requires_constraints)),
    ]
    # not part of the compared value: per-constraint predicates, for the oracle
    preds = {}
    for key, meth in [("logical", "is_logical_constraint"), ("arithmetic", "is_arithmetic_constraint"),
                      ("aggregations", "is_aggregation_constraint"), ("complex", "is_complex_constraint"),
                      ("simple", "is_simple_constraint"), ("pseudocomplex", "is_pseudocomplex_constraint"),
                      ("strictcomplex", "is_strictcomplex_constraint"), ("excludes", "is_excludes_constraint"),
                      ("requires", "is_requires_constraint")]:
        try:
            preds[key] = [i for i, c in enumerate(fm.ctcs) if getattr(c, meth)()]
        except Exception:  # noqa: BLE001
            preds[key] = None
    impl_queries.last_preds = preds
    return tag("q", tag("features", *fq), tag("relations", *rq), tag("listings", *listings),
               tag("lookup", *lookup), tag("ctcs", *ctcs))


# ------------------------------------------------------------------------------ direct oracle
def classify(mn, mx, n):
    """the property's classification, written from the text: exactly one class for 0<=min<=max<=n"""
    if n == 1:
        if (mn, mx) == (1, 1):
            return "mandatory"
        if (mn, mx) == (0, 1):
            return "optional"
        return "cardinal"      # (0,0) on one child: a cardinality group
    if (mn, mx) == (1, 1):
        return "alternative"
    if (mn, mx) == (1, n):
        return "or"
    if (mn, mx) == (0, 1):
        return "mutex"
    return "cardinal"


REL_FLAG_NAMES = ["mandatory", "optional", "or", "alternative", "mutex", "cardinal", "group"]


def oracle_c03(m, reply):
    """check the implementation's answers against definitions computed directly on the spec tree.
    returns a list of (clause, detail) failures"""
    fails = []
    root = m["root"]
    pre = list(spec.spec_features(root))
    q = {x[0]: x[1:] for x in reply[1:]}
    feats = q["features"]
    got_names = [f[0] for f in feats]
    if sorted(got_names) != sorted(f["name"] for f in pre):
        fails.append(("features_once", f"listing {got_names}"))
    # relations exactly once
    spec_rels = []

    def walk(f):
        for r in f["rels"]:
            spec_rels.append((f["name"], [c["name"] for c in r["children"]], r["min"], r["max"]))
            for c in r["children"]:
                walk(c)
    walk(root)
    got_rels = [(r[0], list(r[1]), int(r[2]), int(r[3])) for r in q["relations"]]
    if sorted(map(repr, got_rels)) != sorted(map(repr, spec_rels)):
        fails.append(("relations_once", f"{got_rels}"))
    # parent / children / root / leaf, per feature
    parent_of = {root["name"]: None}
    by_name = {}
    for f in pre:
        by_name[f["name"]] = f
        for r in f["rels"]:
            for c in r["children"]:
                parent_of[c["name"]] = f["name"]
    wf_cards = all(0 <= r[2] <= r[3] <= len(r[1]) and len(r[1]) >= 1 for r in spec_rels)
    unique = len(set(by_name)) == len(pre)
    if unique:
        for name, parent, children, bits in feats:
            f = by_name[name]
            exp_children = [c["name"] for r in f["rels"] for c in r["children"]]
            if (None if parent is None or parent == "nil" else parent) != parent_of[name]:
                fails.append(("parent", name))
            if list(children) != exp_children:
                fails.append(("children", name))
            b = [ch == "1" for ch in str(bits)]
            exp = {}
            exp["root"] = parent_of[name] is None
            prels = by_name[parent_of[name]]["rels"] if parent_of[name] is not None else []
            mine = [r for r in prels if any(c["name"] == name for c in r["children"])]
            exp["mandatory"] = any(classify(r["min"], r["max"], len(r["children"])) == "mandatory" for r in mine)
            exp["optional"] = any(classify(r["min"], r["max"], len(r["children"])) == "optional" for r in mine)
            kinds = [classify(r["min"], r["max"], len(r["children"])) for r in f["rels"]]
            exp["or_group"] = "or" in kinds
            exp["alternative_group"] = "alternative" in kinds
            exp["mutex_group"] = "mutex" in kinds
            exp["cardinality_group"] = "cardinal" in kinds
            exp["group"] = any(len(r["children"]) > 1 for r in f["rels"])
            exp["multiple_group"] = sum(len(r["children"]) > 1 for r in f["rels"]) > 1
            exp["leaf"] = not f["rels"]
            exp["boolean"] = f["type"] == "Boolean"
            exp["numerical"] = f["type"] in ("Integer", "Real")
            exp["string"] = f["type"] == "String"
            exp["multifeature"] = (f["cmin"], f["cmax"]) != (1, 1)
            order = ["root", "mandatory", "optional", "or_group", "alternative_group", "mutex_group",
                     "cardinality_group", "group", "multiple_group", "leaf", "boolean", "numerical",
                     "string", "multifeature"]
            if wf_cards:
                for i, k in enumerate(order):
                    if b[i] != exp[k]:
                        fails.append((f"feature_pred:{k}", name))
        # lookup
        for n, idx in [(x[0], x[1]) for x in q["lookup"]]:
            if n in by_name:
                if idx == "nil" or got_names[int(idx)] != n:
                    fails.append(("lookup", n))
            elif idx != "nil":
                fails.append(("lookup_missing", n))
        # filtered listings
        L = {x[0]: list(x[1]) for x in q["listings"]}

        def expect(key, pred):
            exp_l = [n for n in got_names if pred(by_name[n])]
            if L[key] != exp_l:
                fails.append((f"listing:{key}", f"{L[key]} != {exp_l}"))
        expect("boolean", lambda f: f["type"] == "Boolean")
        expect("numerical", lambda f: f["type"] in ("Integer", "Real"))
        expect("string", lambda f: f["type"] == "String")
        if wf_cards:
            def member_of(kind):
                def p(f):
                    pn = parent_of[f["name"]]
                    if pn is None:
                        return False
                    return any(classify(r["min"], r["max"], len(r["children"])) == kind
                               and any(c["name"] == f["name"] for c in r["children"])
                               for r in by_name[pn]["rels"])
                return p
            expect("mandatory", member_of("mandatory"))
            expect("optional", member_of("optional"))
            expect("alternative_group", lambda f: any(
                classify(r["min"], r["max"], len(r["children"])) == "alternative" for r in f["rels"]))
            expect("or_group", lambda f: any(
                classify(r["min"], r["max"], len(r["children"])) == "or" for r in f["rels"]))
    # constraint-kind listings = the constraints satisfying the kind predicate, in order
    preds = getattr(impl_queries, "last_preds", {})
    for x in q["ctcs"]:
        key, res = x[0], x[1]
        if res[0] == "ok" and preds.get(key) is not None:
            got = [int(i) for i in res[1]]
            if got != preds[key]:
                fails.append((f"ctc_listing:{key}", f"{got} != {preds[key]}"))
    # relation classes: exactly one, and the one the property's definition gives
    for owner, children, mn, mx, bits, _s in q["relations"]:
        mn, mx, n = int(mn), int(mx), len(children)
        if not (0 <= mn <= mx <= n and n >= 1):
            continue
        b = [ch == "1" for ch in str(bits)]
        classes = [REL_FLAG_NAMES[i] for i in range(6) if b[i]]
        if len(classes) != 1:
            fails.append(("class_exactly_one", f"({mn},{mx},{n}) -> {classes}"))
        elif classes[0] != classify(mn, mx, n):
            fails.append(("class_definition", f"({mn},{mx},{n}) -> {classes}"))
        if b[6] != (n > 1):
            fails.append(("is_group", f"({mn},{mx},{n})"))
    return fails


# ------------------------------------------------------------------------------ case streams
def cases(ctx):
    """yield (label, fm spec)"""
    tier = ctx.tier
    # 1. exhaustive relation cardinalities on one relation under the root
    for n in range(1, 5):
        for mn in range(-1, 5):
            for mx in range(-1, 5):
                kids = [spec.F(f"K{i}") for i in range(n)]
                yield "cards", dict(root=spec.F("P", [spec.R(mn, mx, kids)]), ctcs=[])
    # 2. exhaustive small trees
    top = 4 if tier == "quick" else 6
    for n in range(1, top + 1):
        for t in gen.all_trees(n, "kinds" if n > 3 else "all"):
            yield f"exh{n}", dict(root=t, ctcs=[])
    # 3. random typed models with constraints
    g = ctx.gen
    nrand = 400 if tier == "quick" else 6000
    for i in range(nrand):
        n = g.rng.choice([1, 2, 3, 5, 8, 12]) if tier == "quick" else g.rng.choice([1, 2, 5, 12, 30, 80, 200])
        kinds = ("mandatory", "optional", "alternative", "or", "mutex", "card", "nn", "zero")
        ops = gen.LOGICAL if g.rng.random() < 0.7 else gen.LOGICAL + gen.COMPARISON + gen.ARITH + ["SUM", "AVG"]
        m = g.model(n, typed=True, fcard=True, kinds=kinds, ctc_ops=ops,
                    name_classes=("plain", "space", "punct", "keyword", "nonascii", "quote", "lead"))
        yield "random", m
    for m in twin_cases():
        yield "twins", m
    for m in gen.big_models():
        yield "big", m
    # 4. models with out-of-range cardinalities (queries are total; outside the C03 hypothesis)
    for i in range(60 if tier == "quick" else 600):
        yield "badcards", g.model(g.rng.randint(2, 9), kinds=("mandatory", "optional", "bad", "or"))


def twin_cases():
    """siblings whose names differ only in letter case, held by relations of different kinds; constraints
    whose conjunctive normal form nests AND on the right"""
    F, R, T, OP = spec.F, spec.R, spec.T, spec.OP
    yield dict(root=F("P", [R(1, 1, [F("Log")]), R(0, 1, [F("log")]), R(0, 1, [F("FILE")]), R(1, 1, [F("file")])]), ctcs=[])
    yield dict(root=F("P", [R(1, 1, [F("Ab"), F("aB")]), R(0, 1, [F("AB")]), R(1, 1, [F("ab")])]), ctcs=[])
    yield dict(root=F("P", [R(1, 2, [F("Ab"), F("aB")]), R(0, 1, [F("AB"), F("ab")]),
                            R(1, 1, [F("Q", [R(0, 1, [F("q")]), R(1, 1, [F("p")])])])]), ctcs=[])
    A, B, C, D, E, G = (T(x) for x in "ABCDEG")
    N = lambda x: OP("NOT", x)  # noqa: E731
    shapes = [
        OP("OR", OP("AND", N(A), N(B)), OP("AND", N(C), N(D))),
        OP("IMPLIES", A, OP("AND", B, OP("AND", C, D))),
        OP("IMPLIES", A, OP("AND", OP("AND", B, C), D)),
        OP("AND", OP("IMPLIES", A, B), OP("AND", OP("IMPLIES", C, D), OP("AND", OP("IMPLIES", E, G), OP("IMPLIES", A, D)))),
        OP("AND", OP("AND", OP("IMPLIES", A, B), OP("IMPLIES", C, D)), OP("AND", OP("IMPLIES", E, G), N(OP("AND", A, D)))),
        OP("AND", A, OP("AND", B, OP("AND", C, OP("AND", D, OP("AND", E, G))))),
        OP("OR", N(A), OP("AND", B, OP("OR", C, OP("AND", D, E)))),
        OP("EXCLUDES", A, OP("OR", B, OP("OR", C, D))),
        OP("REQUIRES", OP("OR", A, OP("OR", B, C)), OP("AND", D, OP("AND", E, G))),
    ]
    base = gen.free_model(shapes, names="ABCDEG")
    yield base
    for s in shapes:
        yield gen.free_model([s], names="ABCDEG")


def run(ctx):
    st = ctx.suite("Q")
    for label, m in cases(ctx):
        req = sx.dumps(tag("queries", spec.fm_sx(m)))
        model_reply = ctx.model.call_raw(req)
        try:
            reply, after, stale = impl_queries(m)
            impl_reply = sx.dumps(reply)
            if stale and not any(f["name"] in stale for f in spec.spec_features(m["root"])):
                # lookup by name returns the feature carrying that name: no feature of the tree carries these (a subtree
                # that was removed before, DESIGN 9.6 round 10)
                st.oracle_fail(label, req, "lookup:finds-a-feature-that-is-not-in-the-tree", str(stale))
        except Exception as e:  # noqa: BLE001
            reply, after = None, None
            impl_reply = f"(crash {spec.exn_name(e)} {type(e).__name__})"
        nontrivial = spec.spec_size(m["root"]) >= 2 or bool(m["ctcs"])
        st.record(label, req, impl_reply, model_reply, nontrivial)
        if after is not None and sx.dumps(spec.fm_sx(after)) != sx.dumps(spec.fm_sx(m)):
            st.mismatch(label, req, "model mutated by queries", "unchanged")
        if reply is not None:
            for clause, detail in oracle_c03(m, sx.loads(impl_reply)):
                st.oracle_fail(label, req, clause, detail)
    edit_then_query(ctx, st)


def edit_then_query(ctx, st):
    """the listings are asked for, one constraint is replaced through the public `ast` setter, and the listings are
    asked for again on the SAME objects: they must be those of the edited model"""
    from flamapy.core.models.ast import AST
    T, OP = spec.T, spec.OP
    A, B, C = T("A"), T("B"), T("C")
    pairs = [(OP("IMPLIES", A, OP("AND", B, C)), OP("IMPLIES", A, OP("OR", B, C))),
             (OP("IMPLIES", A, OP("OR", B, C)), OP("IMPLIES", A, OP("AND", B, C))),
             (OP("REQUIRES", A, B), OP("OR", OP("AND", A, B), C)),
             (OP("OR", OP("AND", A, B), C), OP("EXCLUDES", A, B)),
             (OP("AND", OP("IMPLIES", A, B), OP("IMPLIES", B, C)), OP("OR", A, OP("AND", B, OP("NOT", C))))]
    for first, second in pairs:
        m1 = gen.free_model([first, OP("IMPLIES", B, C)])
        m2 = gen.free_model([second, OP("IMPLIES", B, C)])
        fm = spec.build_fm(m1)
        try:
            build_queries(fm)                                       # asked once before the edit
            fm.get_constraints()[0].ast = AST(spec.build_node(second))
            reply = build_queries(fm)
            impl_reply = sx.dumps(reply)
        except Exception as e:  # noqa: BLE001
            impl_reply = f"(crash {spec.exn_name(e)} {type(e).__name__})"
        req = sx.dumps(tag("queries", spec.fm_sx(m2)))
        st.record("edit-then-query", req, impl_reply, ctx.model.call_raw(req), True)
