"""Suites for the XML formats: W-fide / R-fide + C07 oracle; third-party FeatureIDE and FaMa documents
from reference emitters and the shipped FaMa/Betty corpus (C09)."""
import glob
import os
import re
import xml.etree.ElementTree as ET

import fmt
import gen
import spec
import sx
from fmt import X
from spec import T, OP
from sx import tag
from suite_json import impl_write, same_spec
from suite_glencoe import equivalent

XML_NAMES = ("plain", "space", "punct", "keyword", "lead", "nonascii", "quote", "xmlspecial", "long", "xmlcontrol")
gen.NAME_CLASSES["xmlcontrol"] = ["tab\there", "new\nline", "trail\n", "\tlead", "two\n\nlines", "a\rb", "cr\r\nlf", "\r"]
gen.NAME_CLASSES["xmlspecial"] = ["<a&b>", "a>b", "&amp;", "back\\slash", "]]>", "<!--", "a\"b'c", "x=\"1\""]
FIDE_OPS = ["NOT", "AND", "OR", "IMPLIES", "EQUIVALENCE", "REQUIRES", "EXCLUDES"]


def fide_model(g, n):
    """FeatureIDE fragment: a feature has only mandatory/optional single children, or is one
    or-/alternative group"""
    rng = g.rng
    names = iter(g.names(n + 6, XML_NAMES))
    root = spec.F(next(names), abstract=rng.random() < 0.3)
    budget = [n - 1]

    def grow(f, depth):
        if budget[0] <= 0 or depth > 7:
            return
        style = rng.choice(["and", "and", "or", "alt"]) if budget[0] >= 2 else "and"
        if style == "and":
            k = min(budget[0], rng.randint(1, 4))
            for _ in range(k):
                c = spec.F(next(names), abstract=rng.random() < 0.25)
                budget[0] -= 1
                mand = rng.random() < 0.5
                g.count("rel_kind", "mandatory" if mand else "optional")
                f["rels"].append(spec.R(1 if mand else 0, 1, [c]))
        else:
            k = min(budget[0], rng.randint(2, 4))
            kids = [spec.F(next(names), abstract=rng.random() < 0.25) for _ in range(k)]
            budget[0] -= k
            g.count("rel_kind", style)
            f["rels"].append(spec.R(1, 1 if style == "alt" else k, kids))
        for r in f["rels"]:
            for c in r["children"]:
                if rng.random() < 0.6:
                    grow(c, depth + 1)
    grow(root, 0)
    for _ in range(20):
        if budget[0] <= 0:
            break
        leaves = [f for f in spec.spec_features(root) if not f["rels"]]
        grow(rng.choice(leaves), 0)
    fnames = [f["name"] for f in spec.spec_features(root)]
    nct = rng.choice([0, 0, 1, 2, 3])
    ctcs = g.ctcs(fnames, nct, FIDE_OPS, 3)
    if nct and rng.random() < 0.3:
        ctcs.append(("single", T(rng.choice(fnames))))
        ctcs.append(("negsingle", OP("NOT", T(rng.choice(fnames)))))
    g.count("tree_size", len(fnames))
    g.count("n_ctcs", len(ctcs))
    return dict(root=root, ctcs=ctcs)


def fide_norm_node(n):
    d, l, r = n
    if d[0] != "op":
        return n
    if d[1] == "NOT":
        return OP("NOT", fide_norm_node(l))
    a, b = fide_norm_node(l), fide_norm_node(r)
    if d[1] == "REQUIRES":
        return OP("IMPLIES", a, b)
    if d[1] == "EXCLUDES":
        return OP("IMPLIES", a, OP("NOT", b))
    if d[1] == "EQUIVALENCE":
        return OP("AND", OP("IMPLIES", a, b), OP("IMPLIES", b, a))
    return OP(d[1], a, b)


def read_xml_file(path):
    return fmt.canon_xml_sx(fmt.et_to_sx(ET.parse(path).getroot()))


def run_fide(ctx):
    from flamapy.metamodels.fm_metamodel.transformations import FeatureIDEWriter, FeatureIDEReader
    w = ctx.suite("W-fide")
    r = ctx.suite("R-fide")
    g = ctx.gen
    sc = fmt.Scratch()
    try:
        n_cases = 150 if ctx.tier == "quick" else 2500
        sizes = [1, 2, 3, 5, 8, 13] if ctx.tier == "quick" else [1, 2, 5, 12, 30, 80]
        def models():
            for i in range(n_cases):
                yield fide_model(g, g.rng.choice(sizes))
            yield from gen.nest_models(FIDE_OPS, chunk=4)
            yield from gen.case_twin_models(cardinal=False)
        for m in models():
            req = sx.dumps(tag("fide_write", spec.fm_sx(m)))
            mrep = sx.loads(ctx.model.call_raw(req))
            if mrep[0] == "ok":
                mrep = [mrep[0], fmt.canon_xml_sx(mrep[1])]
            mrep = sx.dumps(mrep)
            st, ret, data, after, path = impl_write(sc, m, FeatureIDEWriter, "xml")
            if st[0] == "ok":
                doc = read_xml_file(path)
                irep = sx.dumps(tag("ok", doc))
            else:
                doc = None
                irep = sx.dumps(tag("err", sx.Sym(st[1])))
            w.record("fragment", req, irep, mrep, nontrivial=spec.spec_size(m["root"]) >= 2)
            if not same_spec(after, m):
                w.oracle_fail("fragment", req, "writer-modified-model", "")
            if doc is None:
                w.oracle_fail("fragment", req, "writer-raises", st[1])
                continue
            if data != ret:
                w.oracle_fail("fragment", req, "returned-differs-from-file", "")
            rreq = sx.dumps(tag("fide_read", doc))
            mread = ctx.model.call_raw(rreq)
            holder = {}

            def read_file():
                holder["fm"] = fmt.read_twice(FeatureIDEReader, path)
                return holder["fm"]
            iread = sx.dumps(fmt.result_pfm(read_file))
            r.record("writer-output", rreq, iread, mread)
            if "fm" not in holder:
                r.oracle_fail("writer-output", req, "reader-raises-on-writer-output", iread[:200])
                continue
            cur = holder["fm"]
            back = spec.dump_fm(cur)
            diffs = fmt.spec_equal(m, back, attrs=False, types=False)
            if len(back["ctcs"]) != len(m["ctcs"]):
                diffs.append(f"{len(back['ctcs'])} constraints instead of {len(m['ctcs'])}")
            else:
                for (n1, a), (n2, b) in zip(m["ctcs"], back["ctcs"]):
                    if not equivalent(a, b):
                        diffs.append(f"constraint {n1} not equivalent")
            if diffs:
                r.oracle_fail("writer-output", req, "roundtrip:same-model", "; ".join(diffs[:4]))
            for fail in fmt.graph_wf(cur, written=fmt.written_names(m)):
                r.oracle_fail("writer-output", req, "graph:" + fail[0], fail[1])
            text = None        # the text written from the (normalised) model read back must not change any more
            for cyc in range(2, 5):
                p2 = sc.path("xml")
                t2 = FeatureIDEWriter(p2, cur).transform()
                if text is not None and t2 != text:
                    r.oracle_fail("writer-output", req, f"cycle{cyc}:text-differs", "")
                    break
                text = t2
                cur = FeatureIDEReader(p2).transform()
                if not same_spec(spec.dump_fm(cur), back):
                    r.oracle_fail("writer-output", req, f"cycle{cyc}:model-differs", "")
                    break
            for c_, d_ in fmt.exchange_cycles(FeatureIDEWriter, FeatureIDEReader, sc.path("xml"), cur, back, same_spec):
                r.oracle_fail("writer-output", req, c_, d_)
    finally:
        sc.close()


# ------------------------------------------------------------------------------ reference emitters (C09)
def fide_reference(g, n):
    """reference model for FeatureIDE documents: (name, abstract, kind, [(child, mandatory)])"""
    m = fide_model(g, n)
    return m


def emit_fide(m, rng, g):
    """an independent emitter using the syntactic freedom of the format"""
    def attrs(f, mandatory, under_and):
        items = [("name", f["name"])]
        if f["abstract"]:
            items.append(("abstract", "true"))
        elif rng.random() < 0.4:
            items.append(("abstract", "false"))
            g.count("fide_choice", "abstract=false")
        if under_and:
            if mandatory:
                items.append(("mandatory", "true"))
            elif rng.random() < 0.5:
                items.append(("mandatory", "false"))
                g.count("fide_choice", "mandatory=false")
        elif rng.random() < 0.2:
            items.append(("mandatory", rng.choice(["true", "false"])))     # ignored inside groups
        rng.shuffle(items)
        return dict(items)

    def extras():
        out = []
        if rng.random() < 0.25:
            out.append(X("graphics", {"key": "collapsed", "value": "false"}))
            g.count("fide_choice", "graphics")
        if rng.random() < 0.25:
            out.append(X("description", text="some text"))
            g.count("fide_choice", "description")
        return out

    def elem(f, mandatory, under_and):
        if not f["rels"]:
            return X("feature", attrs(f, mandatory, under_and), kids=extras())
        groups = [r for r in f["rels"] if len(r["children"]) > 1]
        if groups:
            r = groups[0]
            t = "alt" if r["max"] == 1 else "or"
            return X(t, attrs(f, mandatory, under_and), kids=extras() + [elem(c, False, False) for c in r["children"]])
        return X("and", attrs(f, mandatory, under_and),
                 kids=extras() + [elem(r["children"][0], r["min"] == 1, True) for r in f["rels"]])

    def rule(n):
        d, l, r = n
        if d[0] != "op":
            return X("var", text=d[1])
        if d[1] == "NOT":
            return X("not", kids=[rule(l)])
        if d[1] in ("AND", "OR"):
            t = "conj" if d[1] == "AND" else "disj"
            ops = []

            def flat(x):
                if x[0] == d and rng.random() < 0.8:
                    flat(x[1])
                    ops.append(rule(x[2]))
                else:
                    ops.append(rule(x))
            flat(n)
            if len(ops) > 2:
                g.count("fide_choice", "nary")
            return X(t, kids=ops)
        if d[1] in ("IMPLIES", "REQUIRES"):
            return X("imp", kids=[rule(l), rule(r)])
        if d[1] == "EXCLUDES":
            return X("imp", kids=[rule(l), X("not", kids=[rule(r)])])
        if d[1] == "EQUIVALENCE":
            return X("eq", kids=[rule(l), rule(r)])
        raise ValueError(d)
    kids = [X("struct", kids=[elem(m["root"], False, False)])]
    if m["ctcs"] or rng.random() < 0.5:
        kids.append(X("constraints", kids=[X("rule", kids=extras() + [rule(a)]) for _, a in m["ctcs"]]))
    else:
        g.count("fide_choice", "no-constraints-section")
    if rng.random() < 0.3:
        kids.append(X("comments"))
        kids.append(X("featureOrder", {"userDefined": "false"}))
    return X("featureModel", kids=kids)


def run_fide_third_party(ctx):
    from flamapy.metamodels.fm_metamodel.transformations import FeatureIDEReader
    r = ctx.suite("R-fide-3p")
    g = ctx.gen
    sc = fmt.Scratch()
    try:
        n_cases = 150 if ctx.tier == "quick" else 2000
        def models():
            for i in range(n_cases):
                yield fide_model(g, g.rng.choice([1, 2, 4, 7, 12]))
            yield from gen.nest_models(FIDE_OPS, chunk=4)
            yield from gen.case_twin_models(cardinal=False)
        for m in models():
            d = emit_fide(m, g.rng, g)
            path = sc.path("xml")
            fmt.write_xdoc(d, path, pretty=g.rng.random() < 0.6)
            doc = read_xml_file(path)
            rreq = sx.dumps(tag("fide_read", doc))
            mread = ctx.model.call_raw(rreq)
            holder = {}

            def read_file():
                holder["fm"] = fmt.read_twice(FeatureIDEReader, path)
                return holder["fm"]
            iread = sx.dumps(fmt.result_pfm(read_file))
            r.record("emitter", rreq, iread, mread)
            if "fm" not in holder:
                r.oracle_fail("emitter", rreq, "reader-raises-on-valid-document", iread[:200])
                continue
            back = spec.dump_fm(holder["fm"])
            diffs = fmt.spec_equal(m, back, attrs=False, types=False)
            if len(back["ctcs"]) != len(m["ctcs"]):
                diffs.append(f"{len(back['ctcs'])} constraints instead of {len(m['ctcs'])}")
            else:
                for (n1, a), (n2, b) in zip(m["ctcs"], back["ctcs"]):
                    if not equivalent(a, b):
                        diffs.append(f"constraint {n1} not equivalent")
            if diffs:
                r.oracle_fail("emitter", rreq, "denotes:same-model", "; ".join(diffs[:4]))
            for fail in fmt.graph_wf(holder["fm"], written=fmt.written_names(m)):
                r.oracle_fail("emitter", rreq, "graph:" + fail[0], fail[1])
            # one malformation of this document: a <var> left without a name.  Whatever the reader accepts has to be a
            # model whose constraints can be asked for their features
            vars_ = [k for k in iter_xdoc(d) if k["tag"] == "var"]
            if vars_ and g.rng.random() < 0.3:
                g.rng.choice(vars_)["text"] = None
                g.count("fide_malformed", "empty-var")
                fmt.write_xdoc(d, path)
                rreq = sx.dumps(tag("fide_read", read_xml_file(path)))
                mread = ctx.model.call_raw(rreq)
                holder = {}
                iread = sx.dumps(fmt.result_pfm(read_file))
                r.record("malformed", rreq, iread, mread)
                if "fm" in holder:
                    for fail in fmt.graph_wf(holder["fm"]):
                        r.oracle_fail("malformed", rreq, "graph:" + fail[0], fail[1])
    finally:
        sc.close()


# ------------------------------------------------------------------------------ FaMa XML
def fama_model(g, n):
    rng = g.rng
    names = g.names(n, ("plain", "space", "punct", "nonascii", "keyword", "xmlspecial"))
    root = g.tree(n, names=names, kinds=("mandatory", "optional", "alternative", "or", "card", "mutex", "nn", "zero"),
                  abstract=False)
    if rng.random() < 0.2:
        # a wide group whose bounds have different numbers of digits ([2..10], [9..12], ...)
        leaf = rng.choice([f for f in spec.spec_features(root) if not f["rels"]])
        k = rng.randint(10, 13)
        lo = rng.randint(2, 9)
        leaf["rels"].append(spec.R(lo, rng.randint(10, k), [spec.F(f"{leaf['name']}_w{j}") for j in range(k)]))
        g.count("fama_choice", "wide-group-multi-digit-bounds")
    fnames = [f["name"] for f in spec.spec_features(root)]
    ctcs = []
    for i in range(rng.choice([0, 1, 2, 4])):
        if len(fnames) >= 2:
            a, b = rng.sample(fnames, 2)
            ctcs.append((f"C-{i}", OP(rng.choice(["REQUIRES", "EXCLUDES"]), T(a), T(b))))
    return dict(root=root, ctcs=ctcs)


def emit_fama(m, rng, g):
    style = rng.choice(["camel", "camel", "lower", "upper"])
    g.count("fama_choice", "case-" + style)

    def t(s):
        return {"camel": s, "lower": s.lower(), "upper": s.upper()}[style]
    counter = [0]

    def card(r):
        items = [("min", str(r["min"])), ("max", str(r["max"]))]
        rng.shuffle(items)
        return X(t("cardinality"), dict(items))

    def feat(f, tagname):
        kids = []
        for r in f["rels"]:
            counter[0] += 1
            single = len(r["children"]) == 1 and rng.random() < 0.85
            rel_tag = t("binaryRelation") if single else t("setRelation")
            child_tag = "solitaryFeature" if single else "groupedFeature"
            rk = [feat(c, t(child_tag)) for c in r["children"]]
            pos = rng.randrange(len(rk) + 1)
            rk.insert(pos, card(r))
            if pos:
                g.count("fama_choice", "cardinality-not-first")
            a = {"name": f"R-{counter[0]}"} if rng.random() < 0.8 else {}
            kids.append(X(rel_tag, a, kids=rk))
        return X(tagname, {"name": f["name"]}, kids=kids)
    kids = [feat(m["root"], t("feature"))]
    for name, (d, l, r) in m["ctcs"]:
        if d[1] == "REQUIRES":
            kids.append(X(t("requires"), {"name": name, "feature": l[0][1], "requires": r[0][1]}))
        else:
            kids.append(X(t("excludes"), {"name": name, "feature": l[0][1], "excludes": r[0][1]}))
    return X("feature-model", kids=kids)


def betty_stats(fm):
    """the statistics Betty writes, computed from a live model"""
    feats = fm.get_features()
    rels = fm.get_relations()
    st = {}
    st["Number of features"] = len(feats)
    st["Mandatory features"] = sum(1 for r in rels if len(r.children) == 1 and (r.card_min, r.card_max) == (1, 1))
    st["Optinal features"] = sum(1 for r in rels if len(r.children) == 1 and (r.card_min, r.card_max) == (0, 1))
    ors = [r for r in rels if len(r.children) > 1 and r.card_min == 1 and r.card_max == len(r.children)]
    alts = [r for r in rels if len(r.children) > 1 and (r.card_min, r.card_max) == (1, 1)]
    st["Or-relationships"] = len(ors)
    st["Alternative relationships"] = len(alts)
    st["Subfeatures in or-relationships"] = sum(len(r.children) for r in ors)
    st["Subfeatures in alternative relationships"] = sum(len(r.children) for r in alts)
    st["Maximum number of children in a set relationship"] = max([len(r.children) for r in rels if len(r.children) > 1] or [1])  # Betty writes 1 when there is no set relationship
    st["Cross-tree constraints"] = len(fm.ctcs)
    from flamapy.core.models.ast import ASTOperation
    st["Requires constraints"] = sum(1 for c in fm.ctcs if c.ast.root.data == ASTOperation.REQUIRES)
    st["Excludes constraints"] = sum(1 for c in fm.ctcs if c.ast.root.data == ASTOperation.EXCLUDES)
    return st


def parse_stats(path):
    out = {}
    for line in open(path, encoding="utf-8", errors="replace"):
        m = re.match(r"^([A-Za-z\- ]+): (\d+)", line)
        if m:
            out[m.group(1).strip()] = int(m.group(2))
    return out


def run_fama(ctx):
    from flamapy.metamodels.fm_metamodel.transformations import XMLReader
    r = ctx.suite("R-fama")
    g = ctx.gen
    sc = fmt.Scratch()
    try:
        n_cases = 150 if ctx.tier == "quick" else 2000
        def models():
            for i in range(n_cases):
                yield fama_model(g, g.rng.choice([1, 2, 4, 7, 12]))
            yield from gen.case_twin_models(ops=("REQUIRES", "EXCLUDES"))
        for m in models():
            d = emit_fama(m, g.rng, g)
            path = sc.path("xml")
            fmt.write_xdoc(d, path, pretty=g.rng.random() < 0.6)
            check_fama_file(ctx, r, "emitter", path, m)
        # malformed: duplicate names, missing cardinality attribute, constraint on an unknown feature
        for i in range(40 if ctx.tier == "quick" else 400):
            m = fama_model(g, g.rng.choice([3, 5, 8]))
            kind = g.rng.randrange(5)
            g.count("fama_malformed", kind)
            feats = list(spec.spec_features(m["root"]))
            if kind == 0 and len(feats) > 1:
                feats[-1]["name"] = feats[0]["name"]
            d = emit_fama(m, g.rng, g)
            if kind == 1:
                cards = [k for k in iter_xdoc(d) if k["tag"].lower() == "cardinality"]
                if cards:
                    g.rng.choice(cards)["attrs"].pop("max")
            elif kind == 2:
                d["kids"].append(X("requires", {"name": "bad", "feature": "__nope__", "requires": m["root"]["name"]}))
            elif kind == 3:
                d["kids"].insert(0, X("excludes", {"name": "early", "feature": m["root"]["name"], "excludes": m["root"]["name"]}))
            elif kind == 4:
                # a relation element left without features
                rels = [k for k in iter_xdoc(d) if k["tag"].lower() in ("setrelation", "binaryrelation")]
                if rels:
                    rel = g.rng.choice(rels)
                    rel["kids"] = [k for k in rel["kids"] if k["tag"].lower() == "cardinality"]
            path = sc.path("xml")
            fmt.write_xdoc(d, path)
            check_fama_file(ctx, r, "malformed", path, None)
        # shipped corpus
        base = "/repo/resources/models"
        files = sorted(glob.glob(base + "/fama_test_suite/**/*.xml", recursive=True)) + sorted(glob.glob(base + "/simple/*.xml"))
        synth = sorted(glob.glob(base + "/synthetic/**/*.xml", recursive=True))
        if ctx.tier == "quick" or ctx.prop != "C09":
            # the whole corpus (up to 20 000 features per file) is read by the thorough tier of C09 only
            small = [f for f in synth if int(f.split("/")[-2]) <= 1000]
            g.rng.shuffle(small)
            files += small[:60]
        else:
            files += synth
        for path in files:
            check_fama_file(ctx, r, "corpus", path, None, stats=path[:-4] + ".statistics")
        ctx.notes.append(f"shipped corpus files read: {len(files)} of 1299")
    finally:
        sc.close()


def iter_xdoc(d):
    yield d
    for k in d["kids"]:
        yield from iter_xdoc(k)


def check_fama_file(ctx, r, label, path, m, stats=None):
    from flamapy.metamodels.fm_metamodel.transformations import XMLReader
    import contextlib
    import io
    doc = read_xml_file(path)
    rreq = sx.dumps(tag("fama_read", doc))
    mread = ctx.model.call_raw(rreq)
    holder = {}

    def read_file():
        with contextlib.redirect_stderr(io.StringIO()):
            reader = XMLReader(path)
            if label != "corpus":
                reader.transform()          # the same reader object asked twice: the second answer is the one compared
            holder["fm"] = reader.transform()
        return holder["fm"]
    iread = sx.dumps(fmt.result_pfm(read_file))
    case = rreq if len(rreq) < 20000 else f"(fama_read (file \"{path}\"))"
    r.record(label, case, iread, mread)
    if "fm" not in holder:
        if label != "malformed":
            r.oracle_fail(label, case, "reader-raises-on-valid-document", iread[:200])
        return
    fm = holder["fm"]
    if m is not None:
        back = spec.dump_fm(fm)
        diffs = fmt.spec_equal(m, back, attrs=False, abstract=False, types=False)
        if [a for _, a in back["ctcs"]] != [a for _, a in m["ctcs"]] or [n for n, _ in back["ctcs"]] != [n for n, _ in m["ctcs"]]:
            diffs.append("constraints differ")
        if diffs:
            r.oracle_fail(label, case, "denotes:same-model", "; ".join(diffs[:4]))
    # whatever document the reader accepts (the malformed stream too): a proper tree
    for fail in fmt.graph_wf(fm, written=fmt.written_names(m) if m is not None else None):
        r.oracle_fail(label, case, "graph:" + fail[0], fail[1])
    if stats and os.path.exists(stats):
        want = parse_stats(stats)
        got = betty_stats(fm)
        for k, v in got.items():
            if k in want and want[k] != v:
                r.oracle_fail(label, case, "betty-statistics", f"{k}: file says {want[k]}, model read has {v}")
