"""Model specifications (plain Python data), their S-expression form, construction of live
flamapy objects through the public constructors, and dumping of live objects back to specs.

feature spec : dict(name, abstract, type, cmin, cmax, attrs=[attr], rels=[rel])
rel spec     : dict(min, max, children=[feature])
attr spec    : dict(name, domain=None|dict(ranges=[(lo,hi)], elems=[v]), default, null)
node spec    : (data, left, right)   data = ('op', NAME) | ('s', str) | ('i', int) | ('fl', float) | ('b', bool)
fm spec      : dict(root=feature, ctcs=[(name, node)])
"""
from sx import Sym, NIL, tag

TYPES = ["Boolean", "Integer", "Real", "String"]


def F(name, rels=(), abstract=False, type="Boolean", cmin=1, cmax=1, attrs=()):
    return dict(name=name, abstract=abstract, type=type, cmin=cmin, cmax=cmax,
                attrs=list(attrs), rels=list(rels))


def R(mn, mx, children):
    return dict(min=mn, max=mx, children=list(children))


def A(name, default=None, domain=None, null=None):
    return dict(name=name, domain=domain, default=default, null=null)


def T(s):
    return (("s", s), None, None)


def OP(op, left=None, right=None):
    return (("op", op), left, right)


# ---------------------------------------------------------------- spec -> sexp
def aval_sx(v):
    if v is None:
        return tag("none")
    if isinstance(v, bool):
        return tag("b", v)
    if isinstance(v, int):
        return tag("i", v)
    if isinstance(v, float):
        return tag("fl", repr(v))
    if isinstance(v, str):
        return tag("s", v)
    if isinstance(v, (list, tuple)):
        return tag("l", *[aval_sx(x) for x in v])
    if isinstance(v, dict):
        return tag("m", *[[str(k), aval_sx(x)] for k, x in v.items()])
    raise TypeError(f"aval {v!r}")


def data_sx(d):
    k, v = d
    if k == "op":
        return tag("op", Sym(v))
    if k == "s":
        return tag("s", v)
    if k == "i":
        return tag("i", v)
    if k == "fl":
        return tag("fl", repr(v))
    if k == "b":
        return tag("b", v)
    raise TypeError(d)


def node_sx(n):
    # iterative to survive deep trees
    if n is None:
        return NIL
    d, l, r = n
    return [Sym("n"), data_sx(d), node_sx(l), node_sx(r)]


def domain_sx(d):
    if d is None:
        return NIL
    return tag("d", [[aval_sx(lo), aval_sx(hi)] for lo, hi in d["ranges"]],
               [aval_sx(e) for e in d["elems"]])


def attr_sx(a):
    return tag("a", a["name"], domain_sx(a["domain"]), aval_sx(a["default"]), aval_sx(a["null"]))


def feature_sx(f):
    return tag("f", f["name"], aval_sx(f["abstract"]), Sym(f["type"]), f["cmin"], f["cmax"],
               [attr_sx(a) for a in f["attrs"]],
               [tag("r", r["min"], r["max"], [feature_sx(c) for c in r["children"]])
                for r in f["rels"]])


def fm_sx(m):
    return tag("fm", feature_sx(m["root"]), [tag("c", n, node_sx(a)) for n, a in m["ctcs"]])


# ---------------------------------------------------------------- spec -> live objects
def build_node(n):
    from flamapy.core.models.ast import Node, ASTOperation
    if n is None:
        return None
    d, l, r = n
    k, v = d
    data = ASTOperation[v] if k == "op" else v
    return Node(data, build_node(l), build_node(r))


def build_domain(d):
    from flamapy.metamodels.fm_metamodel.models import Domain, Range
    if d is None:
        return None
    return Domain([Range(lo, hi) for lo, hi in d["ranges"]], list(d["elems"]))


def build_feature(f, parent=None, via_set=False, fill=False, listfill=False):
    from flamapy.metamodels.fm_metamodel.models import Feature, Relation, Attribute
    from flamapy.metamodels.fm_metamodel.models.feature_model import FeatureType, Cardinality
    own_list = [] if listfill else None       # listfill: the feature is given its list of relations, filled afterwards
    if (f["cmin"], f["cmax"]) == (1, 1):
        # the constructor's own default [1..1], as every reader leaves it for a feature without a cardinality clause
        feat = Feature(f["name"], own_list, parent=parent, is_abstract=f["abstract"], feature_type=FeatureType(f["type"]))
    else:
        feat = Feature(f["name"], own_list, parent=parent, is_abstract=f["abstract"],
                       feature_type=FeatureType(f["type"]),
                       feature_cardinality=Cardinality(f["cmin"], f["cmax"]))
    attrs = [Attribute(a["name"], build_domain(a["domain"]), _copy(a["default"]), _copy(a["null"]))
             for a in f["attrs"]]
    if via_set and attrs:
        feat.set_attributes(attrs)        # the other public way to give a feature its attributes
    else:
        for attr in attrs:
            feat.add_attribute(attr)
    if listfill:
        # the list object handed to the constructor IS the feature's list of relations: the caller appends the relations
        # to it (every child was given its parent by its own constructor)
        for r in f["rels"]:
            own_list.append(Relation(feat, [build_feature(c, feat, via_set, False, True) for c in r["children"]],
                                     r["min"], r["max"]))
        return feat
    if fill:
        # every relation is attached while it is still empty, then filled (the children are given their parent by the
        # constructor): the other public way to the same objects
        rels = [Relation(feat, [], r["min"], r["max"]) for r in f["rels"]]
        for rel in rels:
            feat.add_relation(rel)
        for rel, r in zip(rels, f["rels"]):
            for c in r["children"]:
                rel.add_child(build_feature(c, feat, via_set, fill))
        return feat
    for r in f["rels"]:
        children = [build_feature(c, feat, via_set, fill) for c in r["children"]]
        feat.add_relation(Relation(feat, children, r["min"], r["max"]))
    return feat


def _copy(v):
    import copy
    return copy.deepcopy(v)


def build_fm_plain(m, via_set=False, fill=False, listfill=False):
    from flamapy.metamodels.fm_metamodel.models import FeatureModel, Constraint
    from flamapy.core.models.ast import AST
    root = build_feature(m["root"], None, via_set, fill, listfill)
    ctcs = [Constraint(n, AST(build_node(a))) for n, a in m["ctcs"]]
    return FeatureModel(root, ctcs)


def build_fm(m, mode=None):
    """the live model of a spec.  Half of the specs are built top-down from fresh objects; the others reach the same
    content through a history of public calls (harness/live.py): the choice is a function of the spec"""
    import os
    import live
    chosen, h = live.mode_of(m)
    if mode is None:
        mode = live.PLAIN if os.environ.get("VERIF_PLAIN_BUILD") else chosen
    if mode == live.HISTORY:
        return live.build_history(m, h, lambda s: build_fm_plain(s, True))
    if mode == live.DETOUR:
        return live.build_detour(m, h, lambda s: build_fm_plain(s, True))
    if mode == live.FILL:
        return build_fm_plain(m, False, True)
    if mode == live.LISTFILL:
        return build_fm_plain(m, False, False, True)
    if mode == live.GHOST:
        return live.build_ghost(m, h, lambda s: build_fm_plain(s))
    return build_fm_plain(m)


# ---------------------------------------------------------------- live objects -> spec
def dump_node(node):
    from flamapy.core.models.ast import ASTOperation
    if node is None:
        return None
    d = node.data
    if isinstance(d, ASTOperation):
        data = ("op", d.name)
    elif isinstance(d, bool):
        data = ("b", d)
    elif isinstance(d, int):
        data = ("i", d)
    elif isinstance(d, float):
        data = ("fl", d)
    elif isinstance(d, str):
        data = ("s", d)
    else:
        data = ("s", f"<{type(d).__name__}:{d}>")
    return (data, dump_node(node.left), dump_node(node.right))


def dump_value(v):
    """attribute values: keep python values, but make foreign objects visible"""
    if v is None or isinstance(v, (bool, int, float, str)):
        return v
    if isinstance(v, (list, tuple)):
        return [dump_value(x) for x in v]
    if isinstance(v, dict):
        return {str(k): dump_value(x) for k, x in v.items()}
    return f"<{type(v).__name__}:{v}>"


def dump_domain(d):
    if d is None:
        return None
    return dict(ranges=[(dump_value(r.min_value), dump_value(r.max_value)) for r in d.range_list],
                elems=[dump_value(e) for e in d.element_list])


def dump_feature(feat):
    return dict(name=feat.name, abstract=dump_value(feat.is_abstract),
                type=feat.feature_type.value, cmin=feat.feature_cardinality.min,
                cmax=feat.feature_cardinality.max,
                attrs=[dict(name=a.name, domain=dump_domain(a.domain),
                            default=dump_value(a.default_value), null=dump_value(a.null_value))
                       for a in feat.attributes],
                rels=[dict(min=r.card_min, max=r.card_max,
                           children=[dump_feature(c) for c in r.children])
                      for r in feat.relations])


def dump_fm(fm):
    return dict(root=dump_feature(fm.root),
                ctcs=[(c.name, dump_node(c.ast.root)) for c in fm.ctcs])


# ---------------------------------------------------------------- helpers on specs
def spec_features(f):
    yield f
    for r in f["rels"]:
        for c in r["children"]:
            yield from spec_features(c)


def spec_size(f):
    return sum(1 for _ in spec_features(f))


def exn_name(e: BaseException) -> str:
    known = ["FlamaException", "ParsingException", "DuplicatedFeature", "KeyError", "IndexError",
             "TypeError", "ValueError", "AttributeError", "UnboundLocalError",
             "ZeroDivisionError", "NotImplementedError", "UnicodeDecodeError", "StatisticsError",
             "RuntimeError"]
    for cls in type(e).__mro__:
        if cls.__name__ in known:
            return cls.__name__
    return "Other"


def result_sx(fn, enc):
    """run fn(); encode as (ok v) / (err Name)"""
    try:
        v = fn()
    except RecursionError:
        raise
    except Exception as e:  # noqa: BLE001
        return tag("err", Sym(exn_name(e)))
    return tag("ok", enc(v))


# ---------------------------------------------------------------------- in-place edits of a live model
def retarget(fm, b):
    """turn the live model fm (built from a spec of the same tree shape as b) into b through public attributes /
    setters: names, cardinalities, abstract flags, constraints"""
    from flamapy.core.models.ast import AST

    def walk(feat, sb):
        feat.name = sb["name"]
        feat.is_abstract = sb["abstract"]
        # the feature's own cardinality object edited in place (no other feature's may change with it)
        feat.feature_cardinality.min, feat.feature_cardinality.max = sb["cmin"], sb["cmax"]
        for rel, rb in zip(feat.relations, sb["rels"]):
            rel.card_min, rel.card_max = rb["min"], rb["max"]
            for ch, cb in zip(rel.children, rb["children"]):
                walk(ch, cb)
    walk(fm.root, b["root"])
    for i, (c, (name, node)) in enumerate(zip(fm.ctcs, b["ctcs"])):
        c.name = name
        if i % 2:
            c.ast.root = build_node(node)     # the tree edited in place
        else:
            c.ast = AST(build_node(node))     # the tree replaced through the setter
    fm.ctcs = list(fm.ctcs)                   # and the list rebound


def same_shape_variant(m, rng):
    """a spec with the same tree shape and the same number of constraints as m, with other cardinalities (the kind of
    a relation changes: mandatory <-> optional, group bounds) and other constraint formulas"""
    import copy
    b = copy.deepcopy(m)
    for f in spec_features(b["root"]):
        if rng.random() < 0.5:
            f["cmin"], f["cmax"] = rng.choice([(0, 1), (1, 3), (0, -1), (2, 2)])
        for r in f["rels"]:
            k = len(r["children"])
            if k == 1:
                r["min"], r["max"] = rng.choice([(1, 1), (0, 1)])
            else:
                lo = rng.randint(0, k)
                r["min"], r["max"] = lo, rng.randint(max(lo, 1), k)
    names = [f["name"] for f in spec_features(b["root"])]
    for i, (nm, node) in enumerate(b["ctcs"]):
        a, c, d = rng.choice(names), rng.choice(names), rng.choice(names)
        # simple, pseudo-complex (splits into simple ones) and strict-complex formulas: an edit moves a constraint
        # from one class to another
        b["ctcs"][i] = (nm, rng.choice([
            OP("IMPLIES", T(a), T(c)), OP("EXCLUDES", T(a), T(c)), OP("OR", T(a), T(c)), OP("REQUIRES", T(a), T(c)),
            OP("IMPLIES", T(a), OP("AND", T(c), T(d))), OP("IMPLIES", T(a), OP("OR", T(c), T(d))),
            OP("AND", OP("IMPLIES", T(a), T(c)), OP("EXCLUDES", T(c), T(d))), OP("EQUIVALENCE", T(a), OP("NOT", T(d)))]))
    return b
