"""Suite K — Constraint predicates, get_features, left_right…, split_constraint, str, pretty_str,
get_clauses with AST dumps before/after (C18; C10 uses the clauses part), and the C18 oracle by
complete truth tables."""
import itertools

import gen
import spec
import sx
from spec import T, OP
from sx import Sym, tag


def _r(fn, enc=lambda v: v):
    return spec.result_sx(fn, enc)


def data_sx(d):
    from flamapy.core.models.ast import ASTOperation
    if isinstance(d, ASTOperation):
        return tag("op", Sym(d.name))
    if isinstance(d, bool):
        return tag("b", d)
    if isinstance(d, int):
        return tag("i", d)
    if isinstance(d, float):
        return tag("fl", repr(d))
    return tag("s", str(d))


def impl_ctcq(n):
    from flamapy.metamodels.fm_metamodel.models import Constraint
    from flamapy.metamodels.fm_metamodel.models.feature_model import (
        left_right_features_from_simple_constraint, split_constraint)
    from flamapy.core.models.ast import AST
    root = spec.build_node(n)
    # a third of the constraints are fresh objects; the others were another constraint first, were queried, and got this
    # tree through the setter of Constraint.ast or through the root field of their AST
    import zlib
    import live
    h = zlib.crc32(repr(n).encode("utf8", "surrogatepass"))
    if h % 3 == 0:
        c = Constraint("k", AST(root))
    else:
        T, OP = spec.T, spec.OP
        first = [OP("REQUIRES", T("A"), T("B")), OP("EXCLUDES", T("A"), T("B")), OP("NOT", T("A")),
                 OP("GREATER", OP("ADD", T("A"), T("B")), (("i", 1), None, None)),
                 OP("OR", OP("AND", T("A"), T("B")), OP("XOR", T("C"), T("A")))][(h // 3) % 5]
        c = Constraint("k", AST(spec.build_node(first)))
        live.warm_ctc(c)
        if h % 3 == 1:
            c.ast = AST(root)
        else:
            c.ast.root = root
    out = [
        tag("str", str(c.ast)),
        tag("pretty", _r(c.ast.pretty_str)),
        tag("operators", [Sym(o.name) for o in c.ast.get_operators()]),
        tag("operands", [data_sx(d) for d in c.ast.get_operands()]),
        tag("features", sorted(c.get_features())),
        tag("logical", bool(c.is_logical_constraint())),
        tag("arithmetic", bool(c.is_arithmetic_constraint())),
        tag("aggregation", bool(c.is_aggregation_constraint())),
        tag("single", bool(c.is_single_feature_constraint())),
        tag("requires", _r(lambda: bool(c.is_requires_constraint()))),
        tag("excludes", _r(lambda: bool(c.is_excludes_constraint()))),
        tag("simple", _r(lambda: bool(c.is_simple_constraint()))),
        tag("complex", _r(lambda: bool(c.is_complex_constraint()))),
        tag("pseudo", _r(lambda: bool(c.is_pseudocomplex_constraint()))),
        tag("strict", _r(lambda: bool(c.is_strictcomplex_constraint()))),
        tag("left_right", _r(lambda: left_right_features_from_simple_constraint(c),
                             lambda p: [data_sx(p[0]), data_sx(p[1])])),
        tag("split", _r(lambda: split_constraint(c),
                        lambda cs: [spec.node_sx(spec.dump_node(x.ast.root)) for x in cs])),
        tag("clauses", _r(lambda: c.ast.get_clauses(),
                          lambda cl: [[data_sx(x) for x in clause] for clause in cl])),
    ]
    after = spec.dump_node(c.ast.root)
    return tag("k", *out), after, c


def canon_model_reply(reply):
    """the model lists features in first-occurrence order; Python returns list(set): sort both"""
    out = [reply[0]]
    for x in reply[1:]:
        if x[0] == "features":
            out.append([x[0], sorted(x[1])])
        else:
            out.append(x)
    return out


# ------------------------------------------------------------------------------ oracle
def names_of(n):
    d, l, r = n
    out = []
    if d[0] == "s" and l is None and r is None:
        if not d[1].startswith("'"):
            out.append(d[1])
    for c in (l, r):
        if c is not None:
            out.extend(names_of(c))
    return out


def atoms_of(n):
    d, l, r = n
    out = [d[1]] if d[0] == "s" else []
    for c in (l, r):
        if c is not None:
            out.extend(atoms_of(c))
    return out


def ops_of(n):
    d, l, r = n
    out = [d[1]] if d[0] == "op" else []
    for c in (l, r):
        if c is not None:
            out.extend(ops_of(c))
    return out


def ev(n, env):
    d, l, r = n
    if d[0] == "s":
        return env[d[1]]
    v = d[1]
    if v == "NOT":
        return not ev(l, env)
    a, b = ev(l, env), ev(r, env)
    return {"AND": a and b, "OR": a or b, "IMPLIES": (not a) or b, "REQUIRES": (not a) or b,
            "EXCLUDES": not (a and b), "XOR": a != b, "EQUIVALENCE": a == b}[v]


def equivalent(n, fn, names):
    for bits in itertools.product((False, True), repeat=len(names)):
        env = dict(zip(names, bits))
        if ev(n, env) != fn(env):
            return False, env
    return True, None


DOCUMENTED = [
    ("requires", lambda a, b: OP("REQUIRES", T(a), T(b))),
    ("requires", lambda a, b: OP("IMPLIES", T(a), T(b))),
    ("requires", lambda a, b: OP("OR", OP("NOT", T(a)), T(b))),
    ("requires", lambda a, b: OP("OR", T(b), OP("NOT", T(a)))),
    ("excludes", lambda a, b: OP("EXCLUDES", T(a), T(b))),
    ("excludes", lambda a, b: OP("IMPLIES", T(a), OP("NOT", T(b)))),
    ("excludes", lambda a, b: OP("OR", OP("NOT", T(a)), OP("NOT", T(b)))),
]


def well_formed_logical(n):
    d, l, r = n
    if d[0] == "s":
        # a quoted term is a string literal, not a feature name: such trees are outside the soundness clauses
        return l is None and r is None and not d[1].startswith("'")
    if d[0] != "op" or d[1] not in gen.LOGICAL:
        return False
    if d[1] == "NOT":
        return l is not None and r is None and well_formed_logical(l)
    return l is not None and r is not None and well_formed_logical(l) and well_formed_logical(r)


def well_formed_any(n):
    """an expression tree with every operand in place: terms without children, NOT / LEN / FLOOR / CEIL with a left
    operand, SUM / AVG with one or two operands, every other operator with two"""
    d, l, r = n
    if d[0] != "op":
        return l is None and r is None
    if d[1] in ("NOT", "LEN", "FLOOR", "CEIL"):
        return l is not None and r is None and well_formed_any(l)
    if d[1] in ("SUM", "AVG"):
        return l is not None and well_formed_any(l) and (r is None or well_formed_any(r))
    return l is not None and r is not None and well_formed_any(l) and well_formed_any(r)


def oracle_c18(n, reply, after, documented=None):
    fails = []
    q = {x[0]: x[1] for x in reply[1:]}

    def val(k):
        v = q[k]
        if isinstance(v, list) and v and v[0] == "err":
            fails.append((f"{k}:raises", str(v[1])))
            return None
        if isinstance(v, list) and v and v[0] == "ok":
            return v[1]
        return v
    if after != n:
        fails.append(("modified", "the AST changed"))
    ops = ops_of(n)
    logical = all(o in gen.LOGICAL for o in ops)
    wf = well_formed_logical(n)
    names = sorted(set(names_of(n)))
    if not any(o in gen.AGGR for o in ops):
        if val("logical") != Sym("true" if logical else "false"):
            fails.append(("logical", str(q["logical"])))
        arith = any(o in gen.ARITH + gen.COMPARISON for o in ops)
        if val("arithmetic") != Sym("true" if arith else "false"):
            fails.append(("arithmetic", str(q["arithmetic"])))
        if wf and sorted(q["features"]) != names:
            fails.append(("features", f"{q['features']} != {names}"))
    else:
        if val("aggregation") != Sym("true"):
            fails.append(("aggregation", str(q["aggregation"])))
    if well_formed_any(n) and sorted(q["features"]) != names:
        # "the features reported for a constraint are exactly the names occurring in it": every operator with its
        # operands in place (unary and one-operand aggregates on the left, the others on both sides)
        fails.append(("features-any-operator", f"{q['features']} != {names}"))
    req, exc, simple, cplx = val("requires"), val("excludes"), val("simple"), val("complex")
    pseudo, strict = val("pseudo"), val("strict")
    t = Sym("true")
    if simple is not None and req is not None and exc is not None:
        if (simple == t) != (req == t or exc == t):
            fails.append(("simple=requires-or-excludes", f"{simple} {req} {exc}"))
    if cplx is not None and simple is not None:
        if (cplx == t) != (logical and simple != t) and not any(o in gen.AGGR for o in ops):
            fails.append(("complex=logical-and-not-simple", f"{cplx}"))
    if cplx == t and pseudo is not None and strict is not None:
        if (pseudo == t) == (strict == t):
            fails.append(("complex:exactly-one-of-pseudo-strict", f"pseudo={pseudo} strict={strict}"))
    if cplx is not None and cplx != t:
        if pseudo == t or strict == t:
            fails.append(("pseudo/strict-inside-complex", f"pseudo={pseudo} strict={strict}"))
    if wf:
        d = n[0]
        single_exp = d[0] == "s" or (d[1] == "NOT" and n[1][0][0] == "s")
        if val("single") != Sym("true" if single_exp else "false"):
            fails.append(("single", str(q["single"])))
        # soundness of requires / excludes with the extracted pair
        if req == t or exc == t:
            lr = val("left_right")
            if lr is not None:
                l_, r_ = lr[0][1], lr[1][1]
                if not (isinstance(l_, str) and isinstance(r_, str) and l_ in names and r_ in names):
                    fails.append(("left_right:not-names", str(lr)))
                else:
                    names = sorted(set(atoms_of(n)))
                    if req == t:
                        ok, env = equivalent(n, lambda e: (not e[l_]) or e[r_], names)
                        if not ok:
                            fails.append(("requires:sound", f"pair ({l_},{r_}) differs at {env}"))
                    if exc == t:
                        ok, env = equivalent(n, lambda e: not (e[l_] and e[r_]), names)
                        if not ok:
                            fails.append(("excludes:sound", f"pair ({l_},{r_}) differs at {env}"))
        # split: conjunction equivalent
        sp = val("split")
        if sp is not None:
            parts = [sx_to_node(p) for p in sp]
            if all(well_formed_logical(p) for p in parts):
                pn = sorted(set(atoms_of(n)) | {x for p in parts for x in atoms_of(p)})
                for bits in itertools.product((False, True), repeat=len(pn)):
                    env = dict(zip(pn, bits))
                    if ev(n, env) != all(ev(p, env) for p in parts):
                        fails.append(("split:equivalent", f"differs at {env}"))
                        break
            else:
                fails.append(("split:parts-malformed", ""))
    if documented is not None:
        kind = documented
        if kind == "requires" and req != t:
            fails.append(("documented-form:requires", str(req)))
        if kind == "excludes" and exc != t:
            fails.append(("documented-form:excludes", str(exc)))
    return fails


def sx_to_node(s):
    if isinstance(s, Sym) and s == "nil":
        return None
    _, d, l, r = s
    k = str(d[0])
    v = d[1]
    if k == "op":
        data = ("op", str(v))
    elif k == "i":
        data = ("i", int(v))
    elif k == "b":
        data = ("b", v == "true")
    elif k == "fl":
        data = ("fl", float(v))
    else:
        data = ("s", str(v))
    return (data, sx_to_node(l), sx_to_node(r))


# ------------------------------------------------------------------------------ streams
def cases(ctx):
    g = ctx.gen
    tier = ctx.tier
    names = ["A", "B", "C"]
    for kind, mk in DOCUMENTED:
        for a, b in itertools.permutations(["A", "B", "my feat", "ñ", "x.y", "NOT"], 2):
            yield "documented", mk(a, b), kind
    depth = 2
    allt = list(gen.all_ctc_trees(names, gen.LOGICAL, depth))
    if tier == "quick":
        step = max(1, len(allt) // 4000)
        start = g.rng.randrange(step)
        chosen = allt[:69] + allt[69 + start::step]
    else:
        chosen = allt
    for t in chosen:
        yield "exh-depth2", t, None
    nrand = 600 if tier == "quick" else 8000
    pool = ["A", "B", "C", "D", "E", "my feat", "x-y", "ñ", "NOT", "or", "g", "-g", "2024", "\u0663"]
    done = 0
    while done < nrand:
        t = g.ctc(pool, gen.LOGICAL, g.rng.choice([3, 3, 4, 5]), 0.3)
        # the CNF of nested XOR / EQUIVALENCE is exponential (minutes in the implementation): keep
        # at most two of them per tree
        if sum(1 for o in ops_of(t) if o in ("XOR", "EQUIVALENCE")) > 2 or len(ops_of(t)) > 24:
            continue
        done += 1
        yield "random-deep", t, None
    # AND/OR(/NOT)-only trees: the distribution step of to_cnf (which assigns node.left/right) does the work
    for i in range(300 if tier == "quick" else 3000):
        ops = ["AND", "OR"] if i % 2 else ["AND", "OR", "NOT"]
        t = g.ctc(["A", "B", "C", "D", "E"], ops, g.rng.choice([3, 4]), 0.2)
        if len(ops_of(t)) > 14:
            continue
        yield "and-or", t, None
    # consecutive constraints that differ only in the letter case of their names (a history on the queries)
    def rename(n, mp):
        d, l, r = n
        if d[0] == "s":
            return ((d[0], mp.get(d[1], d[1])), None, None)
        return (d, rename(l, mp) if l is not None else None, rename(r, mp) if r is not None else None)
    W, N, Rr = T("Wifi"), T("Net"), T("radio")
    shapes = [OP("IMPLIES", W, OP("AND", N, Rr)), OP("OR", OP("AND", W, N), Rr), OP("REQUIRES", W, N),
              OP("EXCLUDES", N, Rr), OP("IMPLIES", OP("OR", W, N), OP("AND", Rr, OP("NOT", W))),
              OP("OR", OP("NOT", W), N), OP("AND", OP("IMPLIES", W, N), OP("IMPLIES", N, Rr))]
    for sh in shapes:
        yield "case-twins", sh, None
        yield "case-twins", rename(sh, {"Wifi": "wifi", "Net": "net", "radio": "Radio"}), None
        yield "case-twins", rename(sh, {"Wifi": "WIFI", "Net": "NET", "radio": "RADIO"}), None
    # case twins INSIDE one constraint: clauses of one shape over names that differ only in letter case (whatever removes
    # "repeated" clauses by Constraint equality, which ignores case, drops one of them)
    A, a, B, b = T("Ab"), T("ab"), T("Cd"), T("cD")
    for sh in (OP("AND", OP("OR", A, b), OP("OR", a, B)), OP("AND", OP("IMPLIES", A, B), OP("IMPLIES", a, b)),
               OP("AND", OP("AND", OP("OR", A, B), OP("OR", a, B)), OP("OR", A, b)),
               OP("IMPLIES", OP("OR", A, a), OP("AND", B, b)), OP("AND", OP("EXCLUDES", A, B), OP("EXCLUDES", a, b)),
               OP("OR", OP("AND", A, b), OP("AND", a, B))):
        yield "case-twins-inside", sh, None
    # aggregates with the optional second operand (the scoping feature), alone and nested
    for agg in ("SUM", "AVG"):
        two = OP(agg, T("price"), T("Storage"))
        for shape in (two, OP("GREATER", two, (("i", 6), None, None)), OP("IMPLIES", T("Cpu"), OP("LOWER", two, (("i", 5), None, None))),
                      OP("ADD", two, OP(agg, T("size"))), OP("NOT", OP("EQUALS", OP(agg, T("cost"), T("Disk")), T("Cpu.cost")))):
            yield "aggregate-two-operands", shape, None
    # arithmetic / aggregate / odd terms for the kind predicates
    for i in range(200 if tier == "quick" else 2000):
        yield "arith", rand_arith(g), None
    # malformed shapes (missing operands, NOT on the right, terms with children): model must agree
    for i in range(150 if tier == "quick" else 1500):
        yield "malformed", rand_malformed(g), None


def rand_arith(g, depth=3):
    rng = g.rng
    if depth == 0 or rng.random() < 0.3:
        k = rng.randrange(5)
        # several distinct names: a feature that occurs only in one operand (the optional second operand of
        # an aggregate included) must show in get_features
        return [T(rng.choice(["A", "Storage", "Cpu"])), T(rng.choice(["B.price", "D.size", "E.cost"])),
                (("i", rng.choice([0, 1, -3, 42])), None, None),
                (("fl", rng.choice([0.5, 2.25, -1.5])), None, None), T("'str lit'")][k]
    op = rng.choice(gen.LOGICAL + gen.COMPARISON + gen.ARITH + ["SUM", "AVG", "LEN", "FLOOR", "CEIL"])
    g.count("ctc_op", op)
    if op in ("NOT", "LEN", "FLOOR", "CEIL"):
        return OP(op, rand_arith(g, depth - 1))
    return OP(op, rand_arith(g, depth - 1), rand_arith(g, depth - 1))


def rand_malformed(g, depth=3):
    rng = g.rng
    if depth == 0 or rng.random() < 0.3:
        return T(rng.choice(["A", "B", "C"]))
    op = rng.choice(gen.LOGICAL + ["SUM", "ADD"])
    shape = rng.randrange(6)
    a = rand_malformed(g, depth - 1)
    b = rand_malformed(g, depth - 1)
    if shape == 0:
        return OP(op, None, a)          # operand on the right only
    if shape == 1:
        return OP(op, a, None)
    if shape == 2:
        return OP(op, None, None)
    if shape == 3:
        return (("s", "T"), a, b)       # a term with children
    return OP(op, a, b)


def run(ctx, keys=None):
    st = ctx.suite("K")
    for label, n, documented in cases(ctx):
        req = sx.dumps(tag("ctcq", spec.node_sx(n)))
        mrep = sx.dumps(canon_model_reply(sx.loads(ctx.model.call_raw(req))))
        try:
            reply, after, _c = impl_ctcq(n)
            irep = sx.dumps(reply)
        except RecursionError:
            raise
        except Exception as e:  # noqa: BLE001
            reply, after = None, None
            irep = f"(crash {spec.exn_name(e)})"
        st.record(label, req, irep, mrep, nontrivial=n[1] is not None or n[2] is not None)
        if reply is not None and label not in ("malformed",):
            if after != n:
                st.mismatch(label, req, "AST modified by a query", "unchanged")
            for clause, detail in oracle_c18(n, sx.loads(irep), after, documented):
                st.oracle_fail(label, req, clause, detail)
        elif reply is None and label != "malformed":
            st.oracle_fail(label, req, "query-raises", irep)
