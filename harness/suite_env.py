"""Suite H (C12): every writer under different hash seeds, locales and default encodings, in fresh
interpreter processes and repeatedly in one process: the outputs must be equal to each other byte for
byte, equal to the returned value, valid UTF-8, and the model must be left untouched.  (Outputs are
deliberately compared with each other, not with the Coq model's text: the format properties own that.)"""
import base64
import json
import os
import subprocess

import fmt
import gen
import spec
import sx
from sx import tag

HERE = os.path.dirname(os.path.abspath(__file__))


def common_model(g, n):
    """works with all eight writers: AFM WORD names, attributes with domains, logical constraints"""
    import suite_afm
    return suite_afm.afm_model(g, n)


def unicode_model(g, n):
    m = g.model(n, kinds=("mandatory", "optional", "alternative", "or", "mutex", "card"), ctc_depth=2, abstract=True,
                ctc_ops=["NOT", "AND", "OR", "IMPLIES", "EQUIVALENCE", "REQUIRES", "EXCLUDES"],
                name_classes=("nonascii", "space", "plain", "punct"))
    return m


def uvl_known_unreadable(m):
    """the open C01 findings: names starting with an apostrophe, string values with a full stop or a line break"""
    def bad_value(v):
        if isinstance(v, str):
            return "." in v or "\n" in v or "\r" in v or v == ""
        if isinstance(v, list):
            return any(bad_value(x) for x in v) or len(v) == 1
        if isinstance(v, dict):
            return any(bad_value(x) for x in v.values())
        return False
    for f in spec.spec_features(m["root"]):
        if f["name"].startswith("'"):
            return True
        if any(bad_value(a["default"]) for a in f["attrs"]):
            return True
    return False


def run(ctx):
    st = ctx.suite("H-env")
    g = ctx.gen
    quick = ctx.tier == "quick"
    cases = []
    for i in range(14 if quick else 60):
        cases.append(common_model(g, g.rng.choice([2, 4, 8, 14])))
    for i in range(14 if quick else 60):
        cases.append(unicode_model(g, g.rng.choice([2, 4, 8, 14])))
    # models whose set iteration order matters most: wide groups with many similar names
    for i in range(4 if quick else 20):
        kids = [spec.F(f"K{j}x{g.rng.randrange(10**6)}") for j in range(6)]
        cases.append(dict(root=spec.F("Root", [spec.R(1, 1, kids[:3]), spec.R(0, 1, kids[3:5]), spec.R(2, 3, [kids[5], spec.F("Za"), spec.F("Zb")])]),
                          ctcs=[("c", spec.OP("EXCLUDES", spec.T(kids[0]["name"]), spec.T("Za")))]))
    # constraints whose clauses repeat a literal (anything built on a set of strings shows the hash seed);
    # a group declared before single children (anything that sorts the model's own lists shows in the dump)
    T, OP = spec.T, spec.OP
    names = ["Alpha", "Beta", "Gamma", "Delta", "Epsilon", "Zeta"]
    wide = spec.F("Root", [spec.R(1, 2, [spec.F("Alpha"), spec.F("Beta")]), spec.R(0, 1, [spec.F("Gamma")]),
                           spec.R(2, 3, [spec.F("Delta"), spec.F("Epsilon"), spec.F("Zeta")]), spec.R(1, 1, [spec.F("Eta")])])
    cases.append(dict(root=wide, ctcs=[
        ("c0", OP("OR", OP("OR", OP("OR", T("Alpha"), T("Beta")), OP("OR", T("Gamma"), T("Delta"))), OP("AND", T("Alpha"), T("Epsilon")))),
        ("c1", OP("IMPLIES", OP("AND", T("Zeta"), T("Eta")), OP("OR", T("Zeta"), OP("OR", T("Beta"), T("Zeta"))))),
        ("c2", OP("OR", OP("AND", T("Beta"), T("Gamma")), OP("AND", T("Beta"), OP("NOT", T("Delta"))))),
        ("c3", OP("OR", T("Alpha"), OP("OR", T("Beta"), OP("AND", T("Gamma"), T("Delta"))))),
        ("c4", OP("OR", OP("OR", OP("AND", T("Zeta"), T("Eta")), T("Gamma")), T("Epsilon")))]))
    # different constraints carrying one name (a label, not a key)
    cases.append(dict(root=wide, ctcs=[("rule", OP("IMPLIES", T("Alpha"), T("Gamma"))), ("rule", OP("EXCLUDES", T("Beta"), T("Eta"))),
                                       ("rule", OP("OR", T("Delta"), T("Gamma")))]))
    # an integer domain whose intervals are not in ascending order (a writer that sorts them changes the model)
    cases.append(dict(root=spec.F("Root", [spec.R(0, 1, [spec.F("Disk", attrs=[spec.A("size", default=12, null=0,
                                                        domain=dict(ranges=[(10, 20), (0, 5), (100, 200)], elems=[]))])])]),
                      ctcs=[]))
    # numbered constraints and features past 9, a group of 300 (AFM-compatible names)
    cases.extend(m for m in gen.big_models(cardinal=False) if m["root"]["name"] in ("Num", "Big"))
    # order-permuted twins: equal-comparing models whose text differs (children in another order)
    import copy
    for m in list(cases[:6]) + list(cases[-4:]):
        t = copy.deepcopy(m)
        for f in spec.spec_features(t["root"]):
            for r in f["rels"]:
                r["children"].reverse()
            f["rels"].reverse()
        cases.append(t)
    # letter-case twins: the same model with the case of every letter of every name swapped (equal-comparing constraints
    # where equality ignores case): what was written for one must not show in the text of the other — the workers go
    # through the cases in both directions
    def swapcase(m):
        def node(n):
            if n is None:
                return None
            d, l, r = n
            return ((d[0], d[1].swapcase()) if d[0] == "s" else d, node(l), node(r))
        t = copy.deepcopy(m)
        for f in spec.spec_features(t["root"]):
            f["name"] = f["name"].swapcase()
        t["ctcs"] = [(n, node(a)) for n, a in t["ctcs"]]
        return t
    for m in [c for c in cases[:14] if c["ctcs"]][:4]:
        cases.append(swapcase(m))
    sc = fmt.Scratch()
    try:
        cpath = os.path.join(sc.dir, "cases.json")
        json.dump(cases, open(cpath, "w", encoding="utf-8"), ensure_ascii=True)
        seeds = ["0", "1", "4242"] if quick else ["0", "1", "2", "3", "99", "4242", "123456", "random"]
        locales = [dict(LC_ALL="C.UTF-8"), dict(LC_ALL="C", PYTHONUTF8="0"), dict(LC_ALL="POSIX", PYTHONUTF8="0", PYTHONIOENCODING="latin-1")]
        envs = [(s, loc) for s in seeds for loc in locales] if not quick else \
            [(seeds[0], locales[0]), (seeds[1], locales[1]), (seeds[2], locales[2]), (seeds[1], locales[0]), (seeds[2], locales[1])]
        results = []
        for k, (seed, loc) in enumerate(envs):
            env = {kk: v for kk, v in os.environ.items() if kk not in ("LC_ALL", "LANG", "PYTHONUTF8", "PYTHONIOENCODING", "LC_CTYPE")}
            env.update(loc)
            env["PYTHONHASHSEED"] = seed
            env["PYTHONPATH"] = "/repo"
            env["H_ORDER"] = "reversed" if k % 2 else "forward"
            opath = os.path.join(sc.dir, f"out{k}.json")
            p = subprocess.run(["/venv/bin/python", os.path.join(HERE, "h_worker.py"), cpath, opath], env=env,
                               stdout=subprocess.PIPE, stderr=subprocess.STDOUT, text=True, timeout=1800)
            if p.returncode != 0:
                st.oracle_fail("env", f"(env {seed} {loc})", "worker-crashed", p.stdout[-500:])
                continue
            results.append(((seed, loc), json.load(open(opath))))
        if len(results) < 2:
            st.oracle_fail("env", "(all)", "not-enough-runs", "")
            return
        ref_env, ref = results[0]
        for ci, m in enumerate(cases):
            case = sx.dumps(tag("writers", spec.fm_sx(m)))
            for w in ref[ci]:
                a = ref[ci][w]
                st.record(w, case + " " + w, "ok", "ok", nontrivial=True)
                if "error" not in a:
                    if a["returned"] != a["file"]:
                        st.oracle_fail(w, case, "returned-differs-from-file", w)
                    if not a["repeat_same"] or not a["nofile_same"]:
                        st.oracle_fail(w, case, "repeated-call-differs", w)
                    if not a.get("same_content_same_text", True):
                        st.oracle_fail(w, case, "same-content-written-differently",
                                       w + ": a model built top-down and one that reached the same content through setters")
                    if not a["utf8"]:
                        st.oracle_fail(w, case, "file-is-not-utf8", w)
                    rb = a.get("readback_names")
                    if isinstance(rb, str) and w in ("json", "fide"):
                        st.oracle_fail(w, case, "file-cannot-be-read-back", f"{w}: {rb}")
                    if isinstance(rb, str) and w == "uvl" and not uvl_known_unreadable(m):
                        st.oracle_fail(w, case, "file-cannot-be-read-back", f"{w}: {rb}")
                    if isinstance(rb, list):
                        want = sorted(f["name"] for f in spec.spec_features(m["root"]))
                        if rb != want and w in ("json", "uvl", "fide"):
                            st.oracle_fail(w, case, "names-do-not-survive-the-file", w)
                if not a["model_unchanged"]:
                    st.oracle_fail(w, case, "writer-modified-the-model", w)
                for env_k, other in results[1:]:
                    b = other[ci][w]
                    if a.get("error") != b.get("error") or a.get("file") != b.get("file") or a.get("returned") != b.get("returned") \
                            or a.get("readback_names") != b.get("readback_names"):
                        st.oracle_fail(w, case, "output-depends-on-environment",
                                       f"{w}: {ref_env} vs {env_k}")
                        break
        ctx.notes.append(f"environments compared: {[(s, l) for (s, l), _ in results]}")
    finally:
        sc.close()
