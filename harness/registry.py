"""Per-property registration: theorem file, tables, suites, trusted base, known-finding keys."""
import json

import suite_q
import suite_l
import suite_o
import suite_k
import suite_e
import suite_json
import suite_xml
import suite_glencoe
import suite_afm
import suite_m
import suite_h
import suite_env
import suite_uvl
import suite_export
import suite_known

TRUSTED_BASE = [
    "Coq 8.16.1 kernel; vm_compute for Examples / refuted witnesses; no native_compute",
    "extraction: ExtrOcamlBasic + ExtrOcamlString (Extract Inductive bool/option/unit/list/prod/sumbool/sumor/ascii/string/comparison and their inlined constants); Z/N/positive/nat stay extracted inductives",
    "OCaml 4.13.1 compiler; driver/main.ml (S-expression reader/printer only; all decoding is extracted Gallina: Extract/Codec.v, Extract/Driver.v)",
    "harness: generators (gen.py), live-object builders/dumpers (spec.py), comparison (check.py), tools/gen_tables.py",
    "modelled rather than verified: all of /repo's behaviour is a hand-written Gallina model tied to the code by differential execution on the generated inputs counted in this file",
    "strings are UTF-8 byte strings in the model; Python str comparison = byte order on UTF-8",
]

SRC_TRUSTED = [
    "source tie: tools/py2coq.py (fail-closed Python-ast to Gallina translator; its reading of evaluation order, "
    "short-circuiting, truth values, comprehensions, mutation of function-local lists / dicts as assignment, "
    "`X is not None` as a binding match; operation / writer / reader classes as state records; the store of shared set "
    "objects; readers in builder mode — Feature / Relation objects as tree values, mutation of an object that has not been "
    "stored, passed on or returned as a rebinding, rejected otherwise; field assignment on a Node created in the same function "
    "and not read since; an ElementTree Element as the tree value of Format/Xml.v; the reflection over @metric_method as the "
    "list of decorated names in dir() order) and coq/Model/PyRt.v (a Feature object = the tree value with its chain of "
    "ancestors; built-ins, statistics.mean / median, round, Metrics.construct_result / get_ratio of flamapy.core); the type "
    "annotations of /repo are trusted; flamapy.core (Node / AST methods, simplify_formula, propagate_negation, to_cnf) stays "
    "the hand model of Model/Ast.v; json.load / ElementTree.parse deliver the document value the translated reader starts from",
]

PROPS = {
    "C03": dict(
        props="Props/C03.v",
        tables=["core"],
        src=["py_Relation_is_mandatory", "py_Relation_is_optional", "py_Relation_is_or", "py_Relation_is_alternative",
             "py_Relation_is_mutex", "py_Relation_is_cardinal", "py_Relation_is_group", "py_Feature___eq__",
             "py_Feature_is_empty", "py_Feature_get_relations", "py_Feature_get_parent", "py_Feature_get_children",
             "py_Feature_is_root", "py_Feature_is_mandatory", "py_Feature_is_optional", "py_Feature_is_or_group",
             "py_Feature_is_alternative_group", "py_Feature_is_mutex_group", "py_Feature_is_cardinality_group",
             "py_Feature_is_group", "py_Feature_is_multiple_group_decomposition", "py_Feature_is_leaf",
             "py_Feature_is_boolean", "py_Feature_is_numerical", "py_Feature_is_string", "py_Feature_is_multifeature",
             "py_FeatureModel_get_relations", "py_FeatureModel_get_features", "py_FeatureModel_get_boolean_features",
             "py_FeatureModel_get_numerical_features", "py_FeatureModel_get_string_features",
             "py_FeatureModel_get_mandatory_features", "py_FeatureModel_get_optional_features",
             "py_FeatureModel_get_alternative_group_features", "py_FeatureModel_get_or_group_features",
             "py_FeatureModel_get_feature_by_name"],
        suites=[suite_q.run, suite_l.run],
        rule=("suite L: sequences of public calls that create and link feature objects (Feature(...), add_relation, del "
              "relations[k], Relation.add_child, parent assignment; four in five respect the guards of "
              "C03_construction_linked, moves of subtrees included) on the implementation and on the heap model "
              "(Model/Heap.v): the object graph by identity and the pointer-following queries compared; oracle: linked, and "
              "is_mandatory / is_optional equal to the holding relation's. "
              "suite Q: every public query of Relation/Feature/FeatureModel computed by the implementation "
              "on a model built through the public constructors, compared as canonical S-expressions "
              "with the extracted Gallina model; streams: all (min,max,n) in [-1,4]^2 x [1,4]; all tree "
              "shapes x relation partitions x cardinalities up to 4 (quick) / 6 (thorough) features; "
              "random typed models with awkward names and constraints; out-of-range cardinalities. "
              "non-trivial = at least two features or one constraint; distinct = distinct request text"),
        assumptions=["parent pointers of constructor-built models are the structural parents "
                     "(checked by comparing get_parent() of every feature with the model)"],
    ),
    "C13": dict(
        props="Props/C13.v", tables=["core"],
        src=["py_count_configurations", "py_count_configurations_rec", "py_FMEstimatedConfigurationsNumber_execute",
             "py_FMEstimatedConfigurationsNumber_get_result"],
        suites=[suite_o.make_run("O-estimate", ["estimate"], with_ctcs=True, big=("star",), check_sem=True)],
        rule=("suite O-estimate: FMEstimatedConfigurationsNumber on one re-used operation object vs the model's "
              "[estimate]; all trees up to 4 (quick) / 6 (thorough) features x cardinalities, random models up to "
              "11/13 features with logical constraints, [a..*] groups; an independent Python enumerator over all "
              "2^n selections gives the exact counts (oracle) and also validates the model's [confs]/[valid] "
              "(suite O-estimate-sem). non-trivial = at least two features"),
        assumptions=["the Gallina semantics (Valid / confs / sem) is the intended reading of 'valid configuration'; "
                     "it is compared with the independent Python enumerator on every model of at most 9 features"],
    ),
    "C14": dict(
        props="Props/C14.v", tables=["core"],
        src=["py_get_core_features"],
        suites=[suite_o.make_run("O-core", ["core"], with_ctcs=True, big=("star",), check_sem=True)],
        rule=("suite O-core: FMCoreFeatures (re-used operation object) vs the model's [core_features] as multisets of "
              "names; same streams as C13; oracle: brute-force always-selected set, soundness with constraints, "
              "exactness without, once, root"),
        assumptions=["core features compared as a multiset (the implementation's work-list order is not modelled)"],
    ),
    "C15": dict(
        props="Props/C15.v", tables=["core"],
        src=["py_get_atomic_sets", "py_compute_atomic_sets", "py_Feature_is_mandatory", "py_Feature_get_children"],
        suites=[suite_o.make_run("O-atomic", ["atomic"], with_ctcs=True, big=("star",), check_sem=True)],
        rule=("suite O-atomic: FMAtomicSets (re-used operation object) vs the model's [atomic_sets] (sets as sorted "
              "name lists, list order kept); oracle: partition, co-selection over all valid configurations, "
              "mandatory chains"),
        assumptions=[],
    ),
    "C16": dict(
        props="Props/C16.v", tables=["core"],
        src=["py_count_leaf_features", "py_get_leaf_features", "py_get_feature_ancestors", "py_max_depth_tree",
             "py_average_branching_factor", "py_variation_points", "py_FMCountLeafs_execute", "py_FMLeafFeatures_execute",
             "py_FMFeatureAncestors_execute", "py_FMFeatureAncestors_set_feature", "py_FMMaxDepthTree_execute",
             "py_FMAverageBranchingFactor_execute", "py_FMVariationPoints_execute"],
        suites=[suite_o.make_run("O-tree", ["count_leafs", "leaf_features", "max_depth", "abf", "ancestors", "vps"],
                                 with_ctcs=False, big=("large",), bf_limit=0)],
        rule=("suite O-tree: the six tree-shape operations (re-used operation objects; ancestors for every feature) vs "
              "the model; exhaustive small trees incl. the root-only model, random, large (up to 200 quick / 4000 "
              "thorough features), deep chains, wide groups; oracle: the definitions computed directly on the spec tree"),
        assumptions=["Python's round(x, 2) and float division are modelled bit-exactly in Z (Base/PyFloat.v) and compared on every case"],
    ),
    "C18": dict(
        props="Props/C18.v", tables=["core"],
        src=["py_Constraint_is_requires_constraint", "py_Constraint_is_excludes_constraint",
             "py_Constraint_is_simple_constraint", "py_Constraint_is_complex_constraint",
             "py_Constraint_is_logical_constraint", "py_Constraint_is_arithmetic_constraint",
             "py_Constraint_is_aggregation_constraint", "py_Constraint_is_single_feature_constraint",
             "py_Constraint_get_features", "py_left_right_features_from_simple_constraint", "py_split_formula",
             "py_split_constraint", "py_Constraint_is_pseudocomplex_constraint",
             "py_Constraint_is_strictcomplex_constraint", "py_get_new_ctc_name"],
        suites=[suite_k.run],
        rule=("suite K: str, pretty_str, get_operators/operands, get_features, the ten kind predicates, "
              "left_right_features_from_simple_constraint, split_constraint, get_clauses on one constraint, compared with "
              "the model, AST dumped before/after; streams: the seven documented forms over awkward names, all trees of "
              "depth <= 2 over three names and the eight logical operators (a 4000-tree stratified sample in quick, all "
              "33399 in thorough), random deeper trees (at most two XOR/EQUIVALENCE: their CNF is exponential), "
              "arithmetic/aggregate trees, malformed shapes. oracle: complete truth tables. non-trivial = has an operator"),
        assumptions=["trees with more than two XOR/EQUIVALENCE nodes or more than 24 operators are not generated at random depth (minutes per case in the implementation)"],
    ),
    "C20": dict(
        props="Props/C20.v", tables=["core"],
        src=["py_Feature___eq__", "py_Feature___lt__", "py_Feature___str__", "py_Relation___eq__", "py_Relation__sort_key",
             "py_Relation___lt__", "py_Constraint___eq__", "py_Constraint___lt__", "py_FeatureModel___eq__",
             "py_FeatureModel_get_features", "py_FeatureModel_get_relations"],
        suites=[suite_e.run, suite_known.run_c20_known],
        rule=("suite Q2: ==, !=, hash(), use as set/dict keys on pairs (m, m') of independently built models, and the "
              "full pairwise ==/hash/< matrices of their features, relations and constraints, vs the model; m' = an "
              "identical rebuild, an order-permuted copy (children, relations, constraints shuffled), or a single-point "
              "edit (rename, cardinality, move, re-group, operator/operand, root) and permuted copies of the edits; models "
              "with same-cardinality sibling groups are forced. oracle: an independent canonical form decides which pairs "
              "must be equal. non-trivial = at least two features"),
        assumptions=["str.lower() is ASCII lowering on the generated names (ASCII only); hash collisions between different "
                     "hash keys are assumed not to occur (64-bit)"],
    ),
    "C05": dict(
        props="Props/C05.v", tables=["core", "json"],
        src=["py_to_json", "py_get_tree_info", "py_get_attributes_info", "py_get_constraints_info", "py_get_ctc_info",
             "py_parse_ast_constraint", "py_parse_constraints", "py_parse_tree", "py_parse_relations",
             "py_parse_attributes", "py_JSONReader_parse_json"],
        suites=[suite_json.run],
        rule=("suites W-json / R-json: JSONWriter.transform() (returned text = file bytes, parsed back with json.loads) vs "
              "the model's [json_write]; JSONReader on the file and JSONReader.parse_json on the loaded object vs "
              "[json_read] as pointer-annotated models; inputs: random models of the JSON fragment (all relation kinds incl. "
              "[a..*], arbitrary Unicode names, attribute values None/bool/int/float/str/list/map, logical constraints incl. "
              "xor, duplicate formulas), hand-emitted documents (n-ary operand lists, legacy string flags, missing optional "
              "keys) and one-defect malformed documents. oracle: structural identity of the model read back, 3 cycles, "
              "byte-identical text. non-trivial = at least two features"),
        assumptions=["json.loads(json.dumps(v)) = v for JSON-representable values (validated on every case)"],
        trusted=["external: Python json module (dump/dumps/load/loads)"],
    ),
    "C07": dict(
        props="Props/C07.v", tables=["core", "fide"],
        src=["py__tag_element", "py__get_attributes", "py__get_ctc_info", "py__get_constraints_info",
             "py_FeatureIDEReader__parse_rule", "py_FeatureIDEReader__read_constraints"],
        suites=[suite_xml.run_fide],
        rule=("suites W-fide / R-fide: FeatureIDEWriter.transform() (returned bytes = file bytes; the file is parsed with "
              "ElementTree and compared as an element tree with the model's [fide_write], attribute order canonicalised), "
              "FeatureIDEReader on that file vs [fide_read] as pointer-annotated models; inputs: random models of the "
              "FeatureIDE fragment (and / or / alt features, abstract flags, XML-special / non-ASCII / quoted names and names containing line breaks or tabs, zero or "
              "more constraints incl. single literals). oracle: names, tree, abstract flags identical, constraints pairwise "
              "equivalent by truth table, 4 cycles with byte-identical text from the second generation on"),
        assumptions=["ElementTree.tostring + minidom.toprettyxml + ElementTree.parse preserve tags, attributes, child order "
                     "and the text of text-only elements (validated on every case; names include line breaks, tabs and "
                     "carriage returns; not the empty name)"],
        trusted=["external: xml.etree.ElementTree, xml.dom.minidom"],
    ),
    "C08": dict(
        props="Props/C08.v", tables=["core", "glencoe"],
        src=["py__to_json", "py__get_features_info", "py__get_tree_info", "py__get_constraints_info", "py__get_ctc_info",
             "py_GlencoeReader__parse_ast_constraint", "py_GlencoeReader__parse_tree", "py_GlencoeReader__parse_constraints",
             "py_GlencoeReader_transform"],
        suites=[suite_glencoe.run],
        rule=("suites W-glencoe / R-glencoe: GlencoeWriter.transform() (returned text = file, parsed with json.loads) vs "
              "[glencoe_write]; GlencoeReader on the file vs [glencoe_read] as pointer-annotated models; inputs: random models "
              "of the Glencoe fragment (plain mandatory/optional children, or one alternative / or / mutex / [a,b] / [n,n] "
              "group with mandatory siblings, relations in shuffled order, arbitrary Unicode names), third-party shaped "
              "documents (n-ary terms, extra keys, root optional flag) and one-defect malformed documents. oracle: an "
              "independent normal form (children sorted by name) compared structurally, constraints by name and truth table, "
              "3 cycles with byte-identical text"),
        assumptions=["json.loads(json.dumps(v)) = v (validated on every case)"],
        trusted=["external: Python json module"],
    ),
    "C06": dict(
        props="Props/C06.v", tables=["core", "afm"],
        src=["py_AFMWriter_transform", "py_AFMWriter_serialize_relationships", "py_AFMWriter_serialize_attributes",
             "py_AFMWriter_serialize_constraints", "py_AFMWriter_read_relation", "py_AFMWriter_read_attribute",
             "py_AFMWriter_value_text", "py_AFMWriter_recursive_constraint_read"],
        suites=[suite_afm.run],
        rule=("suites W-afm (bytes of AFMWriter vs [afm_write]), P-afm (the real afmparser parse tree of the written file, "
              "converted to the model's syntax-tree type, vs [afm_cst]: validates the parser premise of the theorems) and "
              "R-afm (AFMReader on the file vs [afm_read_cst] of the parse tree, pointer-annotated); inputs: random models of "
              "the AFM fragment (WORD names, mixed single children and [a,b] groups in any order, integer-range and "
              "enumerated attribute domains, constraints over the seven operators) and all constraint trees of depth <= 2 "
              "over three names (a stratified sample in quick). oracle: independent normal form (singles before groups), "
              "attributes, constraints by truth table, 4 cycles with identical text from the second generation"),
        assumptions=["the afmparser ANTLR parser inverts the rendering of the writer's syntax tree (premise of C06_roundtrip, "
                     "validated by P-afm on every case)"],
        trusted=["external: afmparser 1.0.3 + antlr4 runtime; harness conversion of the ANTLR tree (suite_afm.parse_afm)"],
    ),
    "C12": dict(
        props="Props/C12.v", tables=["core"],
        src=["py_to_json", "py__to_json", "py_PLWriter_transform", "py_SPLOTWriter_transform", "py_ClaferWriter_transform",
             "py_AFMWriter_transform"],
        suites=[suite_env.run],
        rule=("suite H: all eight writers on generated models (AFM-compatible models with attributes, models with "
              "non-ASCII / special names, wide groups) in fresh interpreter processes under 5 (quick) / 24 (thorough) "
              "combinations of PYTHONHASHSEED x locale / PYTHONUTF8 / PYTHONIOENCODING, plus repeated calls and a call "
              "without a file in one process: outputs compared WITH EACH OTHER byte for byte, returned value = file bytes, "
              "file is valid UTF-8 and is read back with the same names, deep dump of the model before = after. "
              "non-trivial = every (model, writer) pair"),
        assumptions=["determinism across processes / hash seeds / locales is OBSERVED on the sampled environments, not proved "
                     "(no Gallina model exhibits the interpreter's hash seed or locale)"],
    ),
    "C17": dict(
        props="Props/C17.v", tables=["core", "metrics"],
        src=["py_FMMetrics__is_group_feature", "py_FMMetrics__is_grouped", "py_FMMetrics__prepare",
             "py_FMMetrics_abstract_compound_features", "py_FMMetrics_abstract_features",
             "py_FMMetrics_abstract_leaf_features", "py_FMMetrics_alternative_groups",
             "py_FMMetrics_avg_children_per_feature", "py_FMMetrics_avg_constraints_per_feature",
             "py_FMMetrics_branching_factor", "py_FMMetrics_calculate_metamodel_metrics",
             "py_FMMetrics_cardinality_groups", "py_FMMetrics_complex_constraints", "py_FMMetrics_compound_features",
             "py_FMMetrics_concrete_compound_features", "py_FMMetrics_concrete_features",
             "py_FMMetrics_concrete_leaf_features", "py_FMMetrics_constraints_per_features",
             "py_FMMetrics_cross_tree_constraints", "py_FMMetrics_depth_tree", "py_FMMetrics_excludes_constraints",
             "py_FMMetrics_extra_constraint_representativeness", "py_FMMetrics_feature_groups", "py_FMMetrics_features",
             "py_FMMetrics_get_feature_ancestors", "py_FMMetrics_grouped_features", "py_FMMetrics_leaf_features",
             "py_FMMetrics_mandatory_features", "py_FMMetrics_max_children_per_feature",
             "py_FMMetrics_max_constraints_per_feature", "py_FMMetrics_max_depth_tree", "py_FMMetrics_mean_depth_tree",
             "py_FMMetrics_median_depth_tree", "py_FMMetrics_metric", "py_FMMetrics_metric_methods",
             "py_FMMetrics_min_children_per_feature", "py_FMMetrics_min_constraints_per_feature",
             "py_FMMetrics_mutex_groups", "py_FMMetrics_optional_features", "py_FMMetrics_or_groups",
             "py_FMMetrics_pseudo_complex_constraints", "py_FMMetrics_requires_constraints", "py_FMMetrics_root_feature",
             "py_FMMetrics_simple_constraints", "py_FMMetrics_solitary_features",
             "py_FMMetrics_strict_complex_constraints", "py_FMMetrics_top_features", "py_FMMetrics_tree_relationships"],
        suites=[suite_m.run],
        rule=("suite O-metrics: FMMetrics through Metrics.execute on ONE re-used operation object over the whole run, with "
              "random subsets of the method names as filter, vs the model's [report]; every entry compared (name, result, "
              "size, ratio in ten-thousandths, parent, level); inputs: root-only models, all trees up to 3/4 features, "
              "random models with all relation kinds incl. [0..0] singles, abstract features, logical constraints. oracle "
              "from the property text: 40 names once, size=len, ratio = round(size/base,4) in [0,1], the partition "
              "identities, definitions recomputed on the spec tree, equality with the stand-alone operations, equality with "
              "a fresh operation object, filtered entries = entries of the full report"),
        assumptions=["feature names are unique (the implementation caches features in dicts keyed by name)"],
    ),
    "C19": dict(
        props="Props/C19.v", tables=["core", "metrics"],
        src=["py_FMEstimatedConfigurationsNumber_execute", "py_FMEstimatedConfigurationsNumber_get_result",
             "py_FMCoreFeatures_execute", "py_FMCoreFeatures_get_result", "py_FMCountLeafs_execute",
             "py_FMLeafFeatures_execute", "py_FMMaxDepthTree_execute", "py_FMAverageBranchingFactor_execute",
             "py_FMVariationPoints_execute", "py_FMFeatureAncestors_execute", "py_FMFeatureAncestors_set_feature",
             "py_FMAtomicSets_execute"],
        suites=[suite_h.run_history, suite_h.run_genrandom],
        rule=("suite O-history: sequences of three look-alike models (equal-comparing but different, same names in other "
              "positions) through the nine read-only operations and FMMetrics on re-used operation objects; each result "
              "compared with a fresh object's, with the result obtained for that model alone in a freshly forked process that has "
              "analysed nothing before (harness/pristine.py), and with the model; deep dump of the model before/after. suite O-genrandom: "
              "GenerateRandomAttribute with element / integer-range / float-range / exponent-notation / mixed domains, "
              "only-leaf on and off, features that already carry the attribute; the draws of random.choice/uniform/randint "
              "are recorded and replayed into [gen_random_attribute]; the whole resulting model is compared. oracle from the "
              "property text (exactly one attribute on targeted features, value in the domain, nothing else touched, "
              "missing domain = FlamaException)"),
        assumptions=["random.randint(a,b) answers within [a,b] (premise randint_ok_pos of C19_gen_value; the recorded draws are "
                     "replayed, so a violation would show as a value outside the domain in the oracle)"],
    ),
    "C09": dict(
        props="Props/C09.v", tables=["core", "fide", "afm", "glencoe", "json"],
        suites=[suite_xml.run_fide_third_party, suite_xml.run_fama, suite_afm.run_third_party,
                suite_glencoe.run_third_party, suite_known.run_c09_known],
        rule=("suites R-fide-3p / R-fama / R-afm-3p / R-glencoe-3p: documents produced by independent reference emitters "
              "written from the format definitions (FeatureIDE: graphics / description elements, mandatory=\"false\", "
              "attribute order, n-ary conj/disj, constraints section absent; FaMa: tag letter case, cardinality position, "
              "binary vs set relations, relation names; AFM: attribute / constraint sections absent, redundant parentheses, AND under "
              "OR without parentheses, a feature-scoped block between plain constraints, plus documents with syntax errors or with "
              "text left over after a complete model, which must raise; Glencoe: n-ary terms, extra keys) for random reference models, read by the implementation's readers and by the reader "
              "models (pointer-annotated comparison); the shipped Betty / FaMa corpus files are read by both and checked "
              "against statistics computed independently from the XML (feature count, relation kinds, constraint kinds). "
              "oracle: the model read = the reference model the document was emitted from (tree, kinds, cardinalities, "
              "abstract flags, attributes, constraints by truth table)"),
        assumptions=["the reference emitters are the harness's reading of the four format definitions (Python); the FaMa one is "
                     "also written in Gallina (Format/Ref.v) and C09_fama_denotes is proved for every choice it makes",
                     "AFM: the afmparser ANTLR parser is external; the reader model consumes its parse tree"],
        trusted=["external: xml.etree.ElementTree, json, afmparser 1.0.3 + antlr4 runtime"],
    ),
    "C01": dict(
        props="Props/C01.v", tables=["core", "uvl"],
        src=["py_UVLWriter_transform", "py_UVLWriter_read_features", "py_UVLWriter_read_attributes",
             "py_UVLWriter_serialize_value", "py_UVLWriter_serialize_relation", "py_UVLWriter_read_constraints",
             "py_UVLWriter__serialize_node", "py_safename", "py_safe_simple_name"],
        suites=[suite_uvl.run, suite_known.run_c01_known],
        rule=("suites W-uvl (bytes of UVLWriter vs [uvl_write]), P-uvl (the real uvlparser parse tree of the written file, "
              "converted to the model's syntax-tree type, vs [cst_of_fm]: validates the parser premise of the theorems) and "
              "R-uvl (UVLReader on the file vs [uvl_read_cst] of the parse tree, pointer-annotated); inputs: random models of "
              "the UVL fragment (all relation kinds, group and feature cardinalities, typed features, attributes with "
              "bool/int/float/string values, names needing quotes, constraints over the logical operators). oracle: the model "
              "read back is structurally identical up to constraint names and logically equivalent constraints (truth table), "
              "4 cycles with byte-identical text"),
        assumptions=["the uvlparser ANTLR parser inverts the rendering of the writer's syntax tree (premise of C01_roundtrip, "
                     "validated by P-uvl on every case)"],
        trusted=["external: uvlparser 2.x + antlr4 runtime; harness conversion of the ANTLR tree (suite_uvl.parse_uvl)"],
    ),
    "C04": dict(
        props="Props/C04.v", tables=["core", "uvl"],
        suites=[suite_uvl.run_c04, suite_uvl.run_c04_known],
        rule=("suites R-uvl-emitter (documents written by an independent reference emitter exercising the language's "
              "syntactic freedom: quoting of plain names, redundant parentheses, end-of-line comments, several children under one "
              "group keyword, explicit Boolean, namespace / include / imports headers) read by UVLReader and "
              "by [uvl_read_cst] on the real parse tree; oracle: the model read = the reference model the document was emitted "
              "from. suite P-uvl-invalid: documents made invalid by one defect (unbalanced bracket, stray operator, misspelt section keyword, "
              "group keyword with children at the same level, stray '|', bracket left open on the last constraint line, operator "
              "without operand at the end of a constraint line — the last two are reported by the parser at a line break) must raise a library error and never return a model"),
        assumptions=["which texts the external parser rejects is sampled, not proved (negative half PARTIAL)"],
        trusted=["external: uvlparser + antlr4 runtime; harness conversion of the ANTLR tree"],
    ),
    "C02": dict(
        props="Props/C02.v", tables=["core", "json", "glencoe", "fide", "uvl", "afm"],
        suites=[suite_json.run, suite_glencoe.run, suite_xml.run_fide, suite_xml.run_fama, suite_uvl.run, suite_afm.run,
                suite_glencoe.run_third_party, suite_xml.run_fide_third_party, suite_afm.run_third_party, suite_uvl.run_c04, suite_known.run_c02_known],
        suite_prefixes=["R-"], clause_prefixes=["graph:", "known:"],
        rule=("the reader suites of C01/C04/C05/C06/C07/C08/C09 (R-json, R-glencoe, R-fide, R-fama, R-uvl, R-uvl-emitter, R-afm, "
              "R-*-3p): every "
              "model a reader returns is dumped WITH its back pointers (parent of every feature, parent of every relation, "
              "owner of every attribute, as paths) and compared with the pointer-annotated reader model; oracle graph_wf walks "
              "the returned object graph through public attributes only: root parentless, every child's parent is the feature "
              "holding the relation, relation parent, attribute owner, every feature reachable once, FeatureIDE relations "
              "non-empty, constraint ASTs with the operands their operator needs"),
        assumptions=["UVL / AFM: the reader model consumes the real parser's tree (converted by the harness)"],
        trusted=["external: json, ElementTree, uvlparser, afmparser"],
    ),
    "C10": dict(
        props="Props/C10.v", tables=["core"],
        src=["py_to_exp", "py_get_relation_formula", "py_get_constraint_formula", "py__node_formula", "py__operand_formula", "py_fm_to_splot", "py_add_features", "py_add_constraints", "py_safename", "py_PLWriter_transform", "py_SPLOTWriter_transform"],
        suites=[suite_export.run_splot, suite_export.run_pl, suite_known.run_c10_known],
        rule=("suites W-splot / W-pl: bytes of SPLOTWriter / PLWriter vs [render_splot] / [pl_lines]; suites S-splot / S-pl: "
              "an independent interpreter of each target format (SXFM tree + CNF clauses; pl configuration lines) enumerates "
              "the configurations the written file admits and compares them with the source model's valid configurations "
              "(independent enumerator); also compared with the model's [sxfm_sat] / [pl_sat]. inputs: random models with all "
              "relation kinds the format can express, awkward names, requires/excludes and general constraints; one-constraint "
              "models over a tree that leaves three features free: every operator directly inside every operator on either side "
              "and under NOT (nest-ctc), a stratified sample (quick) / 6000 (thorough) of all constraint trees of depth <= 2 "
              "(exh-ctc), same-shaped constraints over names differing only in case (case-twins). Output that the "
              "interpreter cannot read is reported as export-not-in-target-syntax"),
        assumptions=["the SXFM / pl interpreters in the harness are this check's reading of the two formats"],
    ),
    "C11": dict(
        props="Props/C11.v", tables=["core"],
        src=["py_fm_to_clafer", "py_read_features", "py_read_feature_attributes", "py__double_literal", "py_parse_group_type", "py__in_any_number_group", "py__serialize_node", "py__serialize_operand", "py_attributes_definition", "py_parse_type_value", "py_safename", "py_ClaferWriter_transform"],
        suites=[suite_export.run_clafer, suite_known.run_c11_known],
        rule=("suites W-clafer (bytes of ClaferWriter vs [render_clafer]) and S-clafer (independent interpreter of the "
              "Clafer subset: group cardinalities xor/or/mux/[a..b], optional marker, constraints in brackets; instances "
              "enumerated and compared with the source model's valid configurations and with [clafer_sat]); every identifier "
              "used is one declared; the nest-ctc / exh-ctc / case-twins constraint streams of C10; output that the interpreter "
              "cannot read is reported as export-not-in-target-syntax"),
        assumptions=["the Clafer-subset interpreter in the harness is this check's reading of the Clafer language"],
    ),

}


def finding_key(prop, failure):
    """map an oracle failure to the key of a known finding (or None)"""
    fn = FINDING_KEYS.get(prop)
    return fn(failure) if fn else None


def _c18_key(f):
    if f["clause"] == "split:equivalent" and ("(op XOR)" in f["case"] or "(op EQUIVALENCE)" in f["case"]):
        return "core-simplify-xor-equivalence"
    return None


def _c10_key(f):
    if f["clause"].startswith("xe:"):
        return "splot-xor-equivalence-via-core-cnf"
    return _known_key(f)


def _known_key(f):
    """clauses of the form  known:<finding key>:...  (fixed documents reproducing a listed finding)"""
    if f["clause"].startswith("known:"):
        return f["clause"].split(":")[1]
    return None


FINDING_KEYS = {"C18": _c18_key, "C10": _c10_key, "C04": _known_key, "C01": _known_key, "C02": _known_key, "C09": _known_key,
                "C11": _known_key, "C20": _known_key}


def replay(ctx, info, path):
    """re-run the recorded failing input (implementation + model + oracle)"""
    rep = json.load(open(path))
    ctx.notes.append(f"replay of {path}")
    case = rep.get("failing_input") or (rep.get("disagreeing_case") or {}).get("case")
    if not case:
        for s in info["suites"]:
            s(ctx)
        return
    ctx.replay_case = case
    for s in info["suites"]:
        s(ctx)
