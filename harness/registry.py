"""Per-property registration: theorem file, tables, suites, trusted base, known-finding keys."""
import json

import suite_q

TRUSTED_BASE = [
    "Coq 8.16.1 kernel; vm_compute for Examples / refuted witnesses; no native_compute",
    "extraction: ExtrOcamlBasic + ExtrOcamlString (Extract Inductive bool/option/unit/list/prod/sumbool/sumor/ascii/string/comparison and their inlined constants); Z/N/positive/nat stay extracted inductives",
    "OCaml 4.13.1 compiler; driver/main.ml (S-expression reader/printer only; all decoding is extracted Gallina: Extract/Codec.v, Extract/Driver.v)",
    "harness: generators (gen.py), live-object builders/dumpers (spec.py), comparison (check.py), tools/gen_tables.py",
    "modelled rather than verified: all of /repo's behaviour is a hand-written Gallina model tied to the code by differential execution on the generated inputs counted in this file",
    "strings are UTF-8 byte strings in the model; Python str comparison = byte order on UTF-8",
]

PROPS = {
    "C03": dict(
        props="Props/C03.v",
        tables=["core"],
        suites=[suite_q.run],
        rule=("suite Q: every public query of Relation/Feature/FeatureModel computed by the implementation "
              "on a model built through the public constructors, compared as canonical S-expressions "
              "with the extracted Gallina model; streams: all (min,max,n) in [-1,4]^2 x [1,4]; all tree "
              "shapes x relation partitions x cardinalities up to 4 (quick) / 6 (thorough) features; "
              "random typed models with awkward names and constraints; out-of-range cardinalities. "
              "non-trivial = at least two features or one constraint; distinct = distinct request text"),
        assumptions=["parent pointers of constructor-built models are the structural parents "
                     "(checked by comparing get_parent() of every feature with the model)"],
    ),
}


def finding_key(prop, failure):
    """map an oracle failure to the key of a known finding (or None)"""
    fn = FINDING_KEYS.get(prop)
    return fn(failure) if fn else None


FINDING_KEYS = {}


def replay(ctx, info, path):
    """re-run the recorded failing input (implementation + model + oracle)"""
    rep = json.load(open(path))
    ctx.notes.append(f"replay of {path}")
    case = rep.get("failing_input") or (rep.get("disagreeing_case") or {}).get("case")
    if not case:
        for s in info["suites"]:
            s(ctx)
        return
    ctx.replay_case = case
    for s in info["suites"]:
        s(ctx)
