"""Suites W-afm / P-afm / R-afm, the C06 oracle (AFM round trip) and third-party AFM documents (C09)."""
import contextlib
import io

import fmt
import gen
import spec
import sx
from spec import T, OP
from sx import Sym, NIL, tag
from suite_json import impl_write, same_spec
from suite_glencoe import equivalent

AFM_OPS = ["NOT", "AND", "OR", "IMPLIES", "EQUIVALENCE", "REQUIRES", "EXCLUDES"]


def parse_afm(path):
    """(adoc ...) S-expression of the parse tree, or None on a syntax error"""
    from antlr4 import CommonTokenStream, FileStream
    from afmparser.AFMLexer import AFMLexer
    from afmparser.AFMParser import AFMParser as P
    listener = fmt.SyntaxErrors()
    lexer = AFMLexer(FileStream(path, encoding="utf-8"))
    lexer.removeErrorListeners()
    lexer.addErrorListener(listener)
    parser = P(CommonTokenStream(lexer))
    parser.removeErrorListeners()
    parser.addErrorListener(listener)
    with contextlib.redirect_stderr(io.StringIO()):
        tree = parser.feature_model()
    from antlr4 import Token
    if listener.errors or parser.getCurrentToken().type != Token.EOF:
        return None          # input left over after the model is a syntax error as well (the start rule has no EOF)

    def value(v):
        if v.INT() is not None:
            return tag("vi", v.getText())
        if v.DOUBLE() is not None:
            return tag("vd", v.getText(), repr(float(v.getText())))
        return tag("vt", v.getText())

    def expr(e):
        n = type(e).__name__
        if n == "AtomContext":
            if e.number() is not None:
                return tag("en", e.number().getText())
            return tag("ev", e.variable().getText())
        if n in ("LogicalExpContext", "OrExpContext", "AndExpContext", "RelationalExpContext", "ArithmeticExpContext"):
            return tag("eb", e.getChild(1).getText(), expr(e.expression()[0]), expr(e.expression()[1]))
        if n == "NotExpContext":
            return tag("enot", expr(e.expression()))
        if n == "ParenthesisExpContext":
            return tag("ep", expr(e.expression()))
        return tag("ev", f"<unhandled {n}>")
    rels = []
    for rs in tree.relationships_block().relationship_spec():
        items = []
        for ch in rs.getChildren():
            if isinstance(ch, P.Non_cardinal_specContext):
                c0 = ch.getChild(0)
                if isinstance(c0, P.Obligatory_specContext):
                    items.append(tag("is", False, c0.WORD().getText()))
                elif isinstance(c0, P.Optional_specContext):
                    items.append(tag("is", True, c0.WORD().getText()))
            elif isinstance(ch, P.Cardinal_specContext):
                ints = ch.cardinality().INT()
                items.append(tag("ig", ints[0].getText(), ints[1].getText(),
                                 [o.WORD().getText() for o in ch.obligatory_spec()]))
        rels.append([rs.init_spec().WORD().getText(), items])
    attrs = NIL
    if tree.attributes_block() is not None:
        attrs = []
        for a in tree.attributes_block().attribute_spec():
            dom = a.attribute_domain()
            if dom.discrete_domain_spec() is not None:
                d = tag("dd", *[value(v) for v in dom.discrete_domain_spec().value_spec()])
            else:
                d = tag("dr", *[[r.INT()[0].getText(), r.INT()[1].getText()] for r in dom.range_domain_spec().domain_range()])
            attrs.append([a.attribute_name().WORD().getText(), a.attribute_name().LOWERCASE().getText(), d,
                          value(a.attribute_default_value().value_spec()), value(a.attribute_null_value().value_spec())])
    ctcs = NIL
    if tree.constraints_block() is not None:
        ctcs = []
        for cs in tree.constraints_block().constraint_spec():
            if cs.simple_spec() is not None:
                ctcs.append(tag("cs", expr(cs.simple_spec().expression()), cs.simple_spec().expression().getText()))
            if cs.brackets_spec() is not None:
                ctcs.append(tag("cb", cs.brackets_spec().WORD().getText(),
                                [[expr(s.expression()), s.expression().getText()] for s in cs.brackets_spec().simple_spec()]))
    return fmt.assert_no_empty_group(tag("adoc", rels, attrs, ctcs), path)


def afm_names(g, n):
    out, seen = [], set()
    pool = ["A", "B", "Car", "Engine", "GPS", "X1", "Y2z", "Wheel", "Root", "NOTx", "ANDy", "Or", "Iff", "Integer1", "To", "Abs",
            "Ab", "AB", "Gps", "CAR", "WHEEL"]
    while len(out) < n:
        base = g.rng.choice(pool)
        name = base if base not in seen else base + str(g.rng.randrange(10000))
        if name in seen:
            continue
        seen.add(name)
        out.append(name)
    return out


def afm_model(g, n):
    rng = g.rng
    n = max(n, 2)
    names = afm_names(g, n)
    root = g.tree(n, names=names, kinds=("mandatory", "optional", "alternative", "or", "mutex", "card", "nn"), abstract=False,
                  wide=lambda l, j: f"{l}W{j}w")
    if rng.random() < 0.2:
        # a one-child group: [a,b]{X} with (a,b) other than (1,1) / (0,1)
        host = rng.choice(list(spec.spec_features(root)))
        nm = host["name"] + "Solo"
        if nm not in [f["name"] for f in spec.spec_features(root)]:
            host["rels"].insert(rng.randrange(len(host["rels"]) + 1), spec.R(*rng.choice([(0, 0), (1, 2), (2, 2), (0, 3)]), [spec.F(nm)]))
            g.count("rel_kind", "one-child-group")
    for f in spec.spec_features(root):
        if rng.random() < 0.3:
            for an in rng.sample(["cost", "size2", "kind", "w"], rng.randint(1, 2)):
                if rng.random() < 0.5:
                    lo = rng.randint(0, 20)
                    dom = dict(ranges=[(lo, lo + rng.randint(0, 50))] + ([(100, 200)] if rng.random() < 0.3 else []), elems=[])
                    dv, nv = rng.choice([0, 0, rng.randint(1, 9)]), rng.choice([0, 0, 100, 7])   # default 0 with another null value
                else:
                    elems = rng.sample(["aa", "bb", "low", "High", "inf", "nan", "infinity", 3, 7, 0, 1.5, 2.25, 10.0,
                                    2**53 + 1, 10**22 + 7, 2**62 - 1, 1e16, 1.5e17, 1e22, '"cafe\u0301"', '"caf\u00e9"', '"\u212b"', '"x y"'], rng.randint(1, 3))
                    if rng.random() < 0.15:
                        # values that are equal under == and different in AFM (an integer beside the real of the same value)
                        k = rng.choice([1, 2, 7, 10])
                        elems = rng.sample([k, float(k), k + 0.5, k + 1], 4)
                        g.count("afm_domain", "int-beside-equal-real")
                    dom = dict(ranges=[], elems=elems)
                    dv, nv = elems[0], rng.choice(["none", 0, 2])
                f["attrs"].append(spec.A(an, default=dv, domain=dom, null=nv))
    fnames = [f["name"] for f in spec.spec_features(root)]
    ctcs = g.ctcs(fnames, rng.choice([0, 1, 2, 3]), AFM_OPS, 3)
    return dict(root=root, ctcs=ctcs)


def afm_norm(m):
    def nf(f):
        g = dict(f)
        def plain(r):      # written without a cardinality: a mandatory or optional single child
            return len(r["children"]) == 1 and (r["min"], r["max"]) in ((1, 1), (0, 1))
        singles = [r for r in f["rels"] if plain(r)]
        groups = [r for r in f["rels"] if not plain(r)]
        g["rels"] = [dict(min=r["min"], max=r["max"], children=[nf(c) for c in r["children"]]) for r in singles + groups]
        return g
    return dict(root=nf(m["root"]), ctcs=m["ctcs"])


def check_model(ctx, sc, m, w, p, r, label):
    from flamapy.metamodels.fm_metamodel.transformations import AFMWriter, AFMReader
    req = sx.dumps(tag("afm_write", spec.fm_sx(m)))
    mrep = ctx.model.call_raw(req)
    st, ret, data, after, path = impl_write(sc, m, AFMWriter, "afm")
    irep = sx.dumps(tag("ok", ret)) if st[0] == "ok" else sx.dumps(tag("err", Sym(st[1])))
    w.record(label, req, irep, mrep, nontrivial=spec.spec_size(m["root"]) >= 2)
    if not same_spec(after, m):
        w.oracle_fail(label, req, "writer-modified-model", "")
    if st[0] != "ok":
        w.oracle_fail(label, req, "writer-raises", st[1])
        return
    if data.decode("utf-8") != ret:
        w.oracle_fail(label, req, "returned-differs-from-file", "")
    cst = parse_afm(path)
    preq = sx.dumps(tag("afm_cst", spec.fm_sx(m)))
    p.record(label, preq, sx.dumps(tag("ok", cst)) if cst is not None else "(syntax-error)", ctx.model.call_raw(preq))
    if cst is None:
        r.oracle_fail(label, req, "writer-output-has-syntax-errors", ret[:300])
        return
    read_and_compare(ctx, sc, r, label, path, cst, req, afm_norm(m), AFMWriter, AFMReader, data)


def read_and_compare(ctx, sc, r, label, path, cst, req, expected, AFMWriter, AFMReader, data=None):
    rreq = sx.dumps(tag("afm_read_cst", cst))
    mread = ctx.model.call_raw(rreq)
    holder = {}

    def read_file():
        holder["fm"] = fmt.read_twice(AFMReader, path)
        return holder["fm"]
    iread = sx.dumps(fmt.result_pfm(read_file))
    r.record(label, rreq, iread, mread)
    if "fm" not in holder:
        r.oracle_fail(label, req, "reader-raises-on-valid-document", iread[:200])
        return
    cur = holder["fm"]
    back = spec.dump_fm(cur)
    diffs = fmt.spec_equal(expected, back, attrs=False, abstract=False, types=False)
    for f, gfeat in zip(spec.spec_features(expected["root"]), spec.spec_features(back["root"])):
        fa = [(a["name"], a["domain"], a["default"], a["null"]) for a in f["attrs"]]
        ga = [(a["name"], a["domain"], a["default"], a["null"]) for a in gfeat["attrs"]]
        if fa != ga:
            diffs.append(f"attributes of {f['name']}: {ga} instead of {fa}")
    if len(back["ctcs"]) != len(expected["ctcs"]):
        diffs.append(f"{len(back['ctcs'])} constraints instead of {len(expected['ctcs'])}")
    else:
        for (n1, a), (n2, b) in zip(expected["ctcs"], back["ctcs"]):
            if not equivalent(a, b):
                diffs.append(f"constraint {n1} not equivalent")
    if diffs:
        r.oracle_fail(label, req, "roundtrip:same-model", "; ".join(diffs[:4]))
    for fail in fmt.graph_wf(cur, written=fmt.written_names(expected)):
        r.oracle_fail(label, req, "graph:" + fail[0], fail[1])
    if data is not None:
        text = None
        for cyc in range(2, 5):
            p2 = sc.path("afm")
            t2 = AFMWriter(p2, cur).transform().encode("utf-8")
            if text is not None and t2 != text:
                r.oracle_fail(label, req, f"cycle{cyc}:text-differs", "")
                break
            text = t2
            cur = AFMReader(p2).transform()
            if not same_spec(spec.dump_fm(cur), back):
                r.oracle_fail(label, req, f"cycle{cyc}:model-differs", "")
                break
        for c_, d_ in fmt.exchange_cycles(AFMWriter, AFMReader, sc.path("afm"), cur, back, same_spec):
            r.oracle_fail(label, req, c_, d_)


def run(ctx):
    w = ctx.suite("W-afm")
    p = ctx.suite("P-afm")
    r = ctx.suite("R-afm")
    g = ctx.gen
    sc = fmt.Scratch()
    try:
        n_cases = 150 if ctx.tier == "quick" else 2500
        sizes = [2, 3, 5, 8, 13] if ctx.tier == "quick" else [2, 5, 12, 30, 80]
        for i in range(n_cases):
            check_model(ctx, sc, afm_model(g, g.rng.choice(sizes)), w, p, r, "fragment")
        # exhaustive constraint trees up to depth 2 over three names (a stratified sample in quick)
        base = spec.F("R", [spec.R(0, 1, [spec.F("A")]), spec.R(0, 1, [spec.F("B")]), spec.R(0, 1, [spec.F("C")])])
        trees = list(gen.all_ctc_trees(["A", "B", "C"], AFM_OPS, 2))
        step = 1 if ctx.tier != "quick" else max(1, len(trees) // 300)
        chunk = []
        for t in trees[g.rng.randrange(step)::step]:
            chunk.append(t)
            if len(chunk) == 25:
                check_model(ctx, sc, dict(root=base, ctcs=[(f"c{i}", x) for i, x in enumerate(chunk)]), w, p, r, "exh-ctc")
                chunk = []
        if chunk:
            check_model(ctx, sc, dict(root=base, ctcs=[(f"c{i}", x) for i, x in enumerate(chunk)]), w, p, r, "exh-ctc")
        for m in gen.nest_models(AFM_OPS, chunk=4):
            check_model(ctx, sc, m, w, p, r, "nest-ctc")
        for m in gen.case_twin_models(names=("Xa", "XA", "Yb", "YB")):    # WORD tokens start with a capital
            check_model(ctx, sc, m, w, p, r, "case-twins")
    finally:
        sc.close()


# ------------------------------------------------------------------------------ third-party AFM documents (C09)
def afm_literal(v):
    """the reference emitter's spelling of a value: a real number in positional notation (DOUBLE has no exponent)"""
    if isinstance(v, float):
        from fractions import Fraction
        q = Fraction(repr(v))
        num, den = q.numerator, q.denominator         # den is a power of ten times ... repr is a finite decimal
        sign = "-" if num < 0 else ""
        num = abs(num)
        scale = 0
        while den != 1:
            num *= 10
            scale += 1
            if num % den == 0:
                num //= den
                den = 1
        text = str(num).rjust(scale + 1, "0")
        return sign + (text[:-scale] + "." + text[-scale:] if scale else text + ".0")
    return str(v)


def emit_afm(m, rng, g):
    def sp():
        return rng.choice(["", " ", "  "])

    def item(r):
        cs = r["children"]
        if len(cs) == 1 and (r["min"], r["max"]) == (1, 1):
            return cs[0]["name"]
        if len(cs) == 1 and (r["min"], r["max"]) == (0, 1):
            return "[" + cs[0]["name"] + "]"      # the grammar allows no space inside [ ]
        return "[" + str(r["min"]) + "," + str(r["max"]) + "]{" + " ".join(c["name"] for c in cs) + "}"
    lines = ["%Relationships"]
    order = []

    def walk(f):
        if f is m["root"] or f["rels"]:
            order.append(f)
        for r in f["rels"]:
            for c in r["children"]:
                walk(c)
    walk(m["root"])
    for f in order:
        lines.append(f["name"] + rng.choice(["", " "]) + ":" + " " + " ".join(item(r) for r in f["rels"]) + ";")
    out = "\n".join(lines) + "\n"
    feats = list(spec.spec_features(m["root"]))
    if any(f["attrs"] for f in feats) or rng.random() < 0.5:
        out += "\n%Attributes\n"
        for f in feats:
            for a in f["attrs"]:
                d = a["domain"]
                if d["ranges"]:
                    dom = "Integer " + "".join(f"[{lo} to {hi}]" for lo, hi in d["ranges"])
                else:
                    dom = "[" + ",".join(afm_literal(e) for e in d["elems"]) + "]"
                out += f"{f['name']}.{a['name']}: {dom},{afm_literal(a['default'])},{afm_literal(a['null'])};\n"
    else:
        g.count("afm_choice", "no-attributes-section")
    if m["ctcs"] or m.get("blocks") or rng.random() < 0.5:
        out += "\n%Constraints\n"
        KW = {"AND": "AND", "OR": "OR", "IMPLIES": "IMPLIES", "EQUIVALENCE": "IFF", "REQUIRES": "REQUIRES", "EXCLUDES": "EXCLUDES"}
        PREC = {"AND": 3, "OR": 2}

        def ex(n, parent=None, right=False):
            d, l, r = n
            if d[0] != "op":
                return d[1]
            if d[1] == "NOT":
                inner = ex(l, "NOT")
                return "NOT " + (inner if l[0][0] != "op" else inner)
            s = ex(l, d[1]) + " " + KW[d[1]] + " " + ex(r, d[1], True)
            return s

        def wrap(n, parent, right):
            return n
        for _, a in m["ctcs"]:
            out += full_paren(a, KW, rng, g) + ";\n"
        for owner, a in m.get("blocks", []):
            out += owner + " {" + full_paren(a, KW, rng, g) + ";}\n"
            g.count("afm_choice", "bracket-block")
        for _, a in m.get("after_blocks", []):
            out += full_paren(a, KW, rng, g) + ";\n"
    else:
        g.count("afm_choice", "no-constraints-section")
    return out


def full_paren(n, KW, rng, g, top=True):
    """constraint text: compound operands in parentheses, except where AND binds tighter than OR
    (the one precedence the reference emitter relies on), plus redundant parentheses"""
    d, l, r = n
    if d[0] != "op":
        s = d[1]
        if rng.random() < 0.1:
            g.count("afm_choice", "redundant-parentheses")
            return "(" + s + ")"
        return s

    def operand(x, parent_op, is_left):
        t = full_paren(x, KW, rng, g, False)
        if x[0][0] != "op":
            return t
        if parent_op == "OR" and x[0][1] == "AND" and rng.random() < 0.5:
            g.count("afm_choice", "and-under-or-without-parentheses")
            return t
        return "(" + t + ")"
    if d[1] == "NOT":
        return "NOT " + operand(l, "NOT", True)
    return operand(l, d[1], True) + " " + KW[d[1]] + " " + operand(r, d[1], False)


def run_third_party(ctx):
    from flamapy.metamodels.fm_metamodel.transformations import AFMWriter, AFMReader
    r = ctx.suite("R-afm-3p")
    g = ctx.gen
    sc = fmt.Scratch()
    try:
        for i in range(150 if ctx.tier == "quick" else 2000):
            m = afm_model(g, g.rng.choice([2, 4, 7, 12]))
            expected = m
            if g.rng.random() < 0.25:
                # a feature-scoped block  Owner {expr;}  between plain constraints: the names inside it are read
                # qualified by the owner, the plain constraints after it are not
                k = g.rng.randint(0, len(m["ctcs"]))
                owner = g.rng.choice([f["name"] for f in spec.spec_features(m["root"])])
                # (a bare attribute name, i.e. a LOWERCASE token, is relative to the owner; a feature name or a qualified
                # attribute inside the block is not)
                other = g.rng.choice([f["name"] for f in spec.spec_features(m["root"])])
                inner = g.rng.choice([T("yq"), T(other), T(other + ".zq")])
                blk = OP(g.rng.choice(["IMPLIES", "AND", "OR"]), T("xq"), OP("NOT", inner))
                qual = OP(blk[0][1], T(owner + ".xq"), OP("NOT", T(owner + ".yq") if inner == T("yq") else inner))
                expected = dict(m, ctcs=m["ctcs"][:k] + [("block", qual)] + m["ctcs"][k:])
                m = dict(m, ctcs=m["ctcs"][:k], blocks=[(owner, blk)], after_blocks=m["ctcs"][k:])
            text = emit_afm(m, g.rng, g)
            path = sc.path("afm")
            with open(path, "w", encoding="utf-8") as fh:
                fh.write(text)
            cst = parse_afm(path)
            if cst is None:
                r.oracle_fail("emitter", sx.dumps(text), "valid-document-rejected-by-parser", text[:300])
                continue
            read_and_compare(ctx, sc, r, "emitter", path, cst, sx.dumps(text), afm_norm(expected), AFMWriter, AFMReader)
        # syntax errors must raise (the parser recovers silently unless the reader installs a listener)
        for bad in ["%Relationships\nA : B [C];\n%Constraints\nB AND NOT C;\n",
                    "%Relationships\nA : B [C;\n", "%Relationships\nA : B [C];\n%Constraints\nB AND;\n",
                    "%Relationships\nA : [1,2{B C};\n", "%Relationships\nA B;\n",
                    # input left over after a complete model: the grammar's start rule does not demand end of file
                    "%Relationships\nA : [B] C;\n%Constraints\nB REQUIRES C;\n};\nC REQUIRES B;\n",
                    "%Relationships\nA : [B] C;\n%Constraints\nB REQUIRES C;\n%Relationships\nX : Y;\n",
                    "%Relationships\nA : [B] C;\n%Constraints\nA {B IMPLIES C;};\nNOT B;\n",
                    "%Relationships\nA : [B] C;\n%Constraints\nB REQUIRES C;\n) ;\n",
                    "%Relationships\nA : [B] C;\n]\n"]:
            path = sc.path("afm")
            with open(path, "w", encoding="utf-8") as fh:
                fh.write(bad)
            try:
                AFMReader(path).transform()
                outcome = "returned-a-model"
            except Exception as e:  # noqa: BLE001
                outcome = "raised"
            r.record("invalid", sx.dumps(bad), outcome, "raised" if parse_afm(path) is None else outcome)
            if parse_afm(path) is None and outcome != "raised":
                r.oracle_fail("invalid", sx.dumps(bad), "syntax-error-not-raised", outcome)
    finally:
        sc.close()
