"""Wrapper around the extracted model driver (/verif/driver/fmdriver)."""
import os
import subprocess
import sx

DRIVER = os.path.join(os.path.dirname(os.path.abspath(__file__)), "..", "driver", "fmdriver")


class Model:
    def __init__(self):
        env = dict(os.environ)
        env["OCAMLRUNPARAM"] = "l=8G"
        self.p = subprocess.Popen(["bash", "-c", f"ulimit -s unlimited 2>/dev/null; exec '{DRIVER}'"],
                                  stdin=subprocess.PIPE, stdout=subprocess.PIPE, text=True,
                                  bufsize=1, env=env, encoding="ascii")

    def call_raw(self, line: str) -> str:
        self.p.stdin.write(line + "\n")
        self.p.stdin.flush()
        out = self.p.stdout.readline()
        if not out:
            raise RuntimeError("model driver died on: " + line[:300])
        return out.rstrip("\n")

    def call(self, req):
        return sx.loads(self.call_raw(sx.dumps(req)))

    def batch_raw(self, lines):
        """send many requests; read replies (one per request).  Done in chunks to avoid pipe
        deadlock."""
        res = []
        for ln in lines:
            res.append(self.call_raw(ln))
        return res

    def close(self):
        try:
            self.p.stdin.close()
            self.p.wait(timeout=5)
        except Exception:  # noqa: BLE001
            self.p.kill()
