"""Shared machinery for the format suites: pointer-annotated dumps of live models, JSON/XML document
conversion, scratch files, fragment generators, independent structural comparison."""
import json
import os
import shutil
import tempfile
import xml.etree.ElementTree as ET

import spec
import sx
from sx import Sym, NIL, tag

SCRATCH = os.path.join(os.path.dirname(os.path.dirname(os.path.abspath(__file__))), ".scratch")


class Scratch:
    def __init__(self):
        os.makedirs(SCRATCH, exist_ok=True)
        self.dir = tempfile.mkdtemp(prefix=f"{os.getpid()}-", dir=SCRATCH)
        self.n = 0

    def path(self, ext):
        self.n += 1
        return os.path.join(self.dir, f"f{self.n}.{ext}")

    def close(self):
        shutil.rmtree(self.dir, ignore_errors=True)


# ------------------------------------------------------------------ pointer-annotated dump
def pdump(fm):
    """(pfm ...) S-expression of a live FeatureModel with explicit back pointers as paths"""
    paths = {}
    alias = []

    def assign(feat, path):
        if id(feat) in paths:
            alias.append(path)
            return
        paths[id(feat)] = path
        for i, r in enumerate(feat.relations):
            for j, c in enumerate(r.children):
                assign(c, path + [(i, j)])
    assign(fm.root, [])

    def ptr(obj):
        if obj is None:
            return NIL
        p = paths.get(id(obj))
        if p is None:
            return Sym("ext")
        return tag("p", *[x for ij in p for x in ij])

    def num(v):
        return v if isinstance(v, int) and not isinstance(v, bool) else Sym(f"<{type(v).__name__}:{v}>")

    def feat(f):
        attrs = []
        for a in f.attributes:
            asx = tag("a", a.name if isinstance(a.name, str) else f"<{type(a.name).__name__}>",
                      spec.domain_sx(spec.dump_domain(a.domain)),
                      spec.aval_sx(spec.dump_value(a.default_value)),
                      spec.aval_sx(spec.dump_value(a.null_value)))
            attrs.append([asx, ptr(a.parent)])
        rels = []
        for r in f.relations:
            rels.append(tag("pr", ptr(r.parent), num(r.card_min), num(r.card_max),
                            [feat(c) for c in r.children]))
        name = f.name if isinstance(f.name, str) else f"<{type(f.name).__name__}:{f.name}>"
        return tag("pf", name, spec.aval_sx(spec.dump_value(f.is_abstract)),
                   Sym(f.feature_type.value), num(f.feature_cardinality.min),
                   num(f.feature_cardinality.max), ptr(f.parent), attrs, rels)
    out = tag("pfm", feat(fm.root),
              [tag("c", c.name if isinstance(c.name, str) else f"<{type(c.name).__name__}:{c.name}>",
                   spec.node_sx(spec.dump_node(c.ast.root))) for c in fm.ctcs])
    if alias:
        out.append(tag("alias", len(alias)))
    return out


def result_pfm(fn):
    """run a reader; (ok <pfm>) / (err Name)"""
    return spec.result_sx(fn, pdump)


# ------------------------------------------------------------------ independent checks on a live model
def written_names(m):
    """per constraint of a reference model: the sorted set of feature names written in it (None when an
    aggregate operator makes get_features() mean something else)"""
    def walk(n, acc):
        d, l, r = n
        if d[0] == "s" and l is None and r is None:
            if not d[1].startswith("'"):
                acc.add(d[1])
        for c in (l, r):
            if c is not None:
                walk(c, acc)
        return False
    out = []
    for _, node in m["ctcs"]:
        acc = set()
        out.append(None if walk(node, acc) else sorted(acc))
    return out


def graph_wf(fm, written=None):
    """C02 oracle: walk the returned object graph through public attributes.
    written: for documents emitted from a reference model, the names written in each constraint"""
    fails = []
    if written is not None and all(w is not None for w in written):
        try:
            got = sorted(sorted(c.get_features()) for c in fm.ctcs)
            if got != sorted(written):
                fails.append(("ctc:features-as-written", f"{got} != {sorted(written)}"))
        except Exception:  # noqa: BLE001   (reported by the per-constraint clause below)
            pass
    seen = set()

    def walk(f, parent):
        if id(f) in seen:
            fails.append(("tree:feature-in-two-places", str(f.name)))
            return
        seen.add(id(f))
        if f.get_parent() is not parent:
            fails.append(("ptr:feature.parent", str(f.name)))
        for a in f.get_attributes():
            if a.get_parent() is not f:
                fails.append(("ptr:attribute.parent", f"{f.name}.{a.name}"))
        for r in f.get_relations():
            if r.parent is not f:
                fails.append(("ptr:relation.parent", str(f.name)))
            if not r.children:
                fails.append(("relation:empty", str(f.name)))
            for c in r.children:
                walk(c, f)
    if fm.root.get_parent() is not None:
        fails.append(("ptr:root.parent", ""))
    walk(fm.root, None)
    from flamapy.core.models.ast import ASTOperation

    def shape(n):
        if n is None:
            return False
        if isinstance(n.data, ASTOperation):
            if n.data == ASTOperation.NOT:
                return n.left is not None and n.right is None and shape(n.left)
            if n.data in (ASTOperation.LEN, ASTOperation.FLOOR, ASTOperation.CEIL,
                          ASTOperation.SUM, ASTOperation.AVG) and n.right is None:
                return n.left is not None and shape(n.left)
            return n.left is not None and n.right is not None and shape(n.left) and shape(n.right)
        return n.left is None and n.right is None

    def leaf_names(n):
        if n is None:
            return []
        if not isinstance(n.data, ASTOperation):
            return [n.data] if isinstance(n.data, str) and not n.data.startswith("'") else []
        return leaf_names(n.left) + leaf_names(n.right)
    def shared_node(root):
        """an expression TREE: no node object is reached along two paths (nor from two constraints)"""
        stack = [root]
        while stack:
            n = stack.pop()
            if n is None:
                continue
            if id(n) in seen_nodes:
                return True
            seen_nodes.add(id(n))
            stack.extend((n.left, n.right))
        return False
    seen_nodes = set()
    for c in fm.ctcs:
        if not shape(c.ast.root):
            fails.append(("ctc:shape", c.name))
        elif shared_node(c.ast.root):
            fails.append(("ctc:not-a-tree", f"{c.name}: a node is an operand of two operators"))
        else:
            try:
                got = sorted(c.get_features())
                if got != sorted(set(leaf_names(c.ast.root))):
                    fails.append(("ctc:get_features", f"{got}"))
            except Exception as e:  # noqa: BLE001
                fails.append(("ctc:get_features-raises", type(e).__name__))
    return fails


# ------------------------------------------------------------------ JSON documents
def json_to_aval_sx(v):
    return spec.aval_sx(v)


def sx_to_py(s):
    """(aval sexp) -> python value"""
    t = str(s[0])
    if t == "none":
        return None
    if t == "b":
        return s[1] == "true"
    if t == "i":
        return int(s[1])
    if t == "fl":
        return float(s[1])
    if t == "s":
        return s[1]
    if t == "l":
        return [sx_to_py(x) for x in s[1:]]
    if t == "m":
        return {x[0]: sx_to_py(x[1]) for x in s[1:]}
    raise ValueError(t)


# ------------------------------------------------------------------ XML documents
def et_to_sx(e):
    kids = [et_to_sx(k) for k in e if isinstance(k.tag, str)]
    text = e.text
    if kids or text is None or text == "":
        text = None
    return tag("x", e.tag, [[k, v] for k, v in e.attrib.items()], text if text is not None else NIL, kids)


def canon_xml_sx(s):
    """sort attributes (their order is not significant)"""
    return [s[0], s[1], sorted(s[2]), s[3], [canon_xml_sx(k) for k in s[4]]]


def X(tag_, attrs=None, text=None, kids=()):
    return dict(tag=tag_, attrs=dict(attrs or {}), text=text, kids=list(kids))


def xdoc_to_et(d):
    e = ET.Element(d["tag"], d["attrs"])
    e.text = d["text"]
    for k in d["kids"]:
        e.append(xdoc_to_et(k))
    return e


def xdoc_sx(d):
    return tag("x", d["tag"], [[k, v] for k, v in d["attrs"].items()],
               d["text"] if d["text"] not in (None, "") else NIL, [xdoc_sx(k) for k in d["kids"]])


def write_xdoc(d, path, pretty=False, extra_ws=False):
    root = xdoc_to_et(d)
    if pretty or extra_ws:
        ET.indent(root, space="  " if not extra_ws else "\t  ")
    data = ET.tostring(root, encoding="UTF-8", xml_declaration=True)
    # ElementTree leaves a carriage return raw inside element text, where a parser reads it back as a line feed
    with open(path, "wb") as fh:
        fh.write(data.replace(b"\r", b"&#13;"))


# ------------------------------------------------------------------ structural comparison of specs
def spec_equal(a, b, attrs=True, abstract=True, types=True):
    """independent comparison of two model specs (what 'the same model' means); returns a list of
    differences (empty = same)"""
    diffs = []

    def cmp(f, g, where):
        if f["name"] != g["name"]:
            diffs.append(f"name {where}: {f['name']!r} vs {g['name']!r}")
            return
        if abstract and f["abstract"] is not g["abstract"] and f["abstract"] != g["abstract"]:
            diffs.append(f"abstract {where}/{f['name']}: {f['abstract']!r} vs {g['abstract']!r}")
        if abstract and type(f["abstract"]) is not type(g["abstract"]):
            diffs.append(f"abstract type {where}/{f['name']}: {f['abstract']!r} vs {g['abstract']!r}")
        if types and (f["type"], f["cmin"], f["cmax"]) != (g["type"], g["cmin"], g["cmax"]):
            diffs.append(f"type/card {where}/{f['name']}")
        if attrs:
            fa = [(a["name"], repr(a["default"])) for a in f["attrs"]]
            ga = [(a["name"], repr(a["default"])) for a in g["attrs"]]
            if fa != ga:
                diffs.append(f"attributes {where}/{f['name']}: {fa} vs {ga}")
        if len(f["rels"]) != len(g["rels"]):
            diffs.append(f"relations {where}/{f['name']}: {len(f['rels'])} vs {len(g['rels'])}")
            return
        for r, s in zip(f["rels"], g["rels"]):
            if (r["min"], r["max"], len(r["children"])) != (s["min"], s["max"], len(s["children"])):
                diffs.append(f"relation {where}/{f['name']}: [{r['min']},{r['max']}]x{len(r['children'])} vs "
                             f"[{s['min']},{s['max']}]x{len(s['children'])}")
                return
            for c, d in zip(r["children"], s["children"]):
                cmp(c, d, where + "/" + f["name"])
    cmp(a["root"], b["root"], "")
    return diffs


# ------------------------------------------------------------------ ANTLR: the harness's own listener
def SyntaxErrors():
    """an ANTLR error listener that records every reported syntax error (independent of /repo's)"""
    from antlr4.error.ErrorListener import ErrorListener

    class _Listener(ErrorListener):
        def __init__(self):
            super().__init__()
            self.errors = []

        def syntaxError(self, recognizer, offendingSymbol, line, column, msg, e):  # noqa: N802,N803
            self.errors.append(f"{line}:{column}: {msg}")
    return _Listener()


# ------------------------------------------------------------------ hypothesis of C02_uvl_nonempty / C02_afm_nonempty
class ParserHypothesisViolated(Exception):
    """the external parser produced a tree the reader theorems exclude (an empty group): the theorems' premise, not the
    reader under test, has failed — the suite stops and the check reports the obligation as broken"""


def assert_no_empty_group(cst, path):
    """(g kind ()) in a UVL tree, (ig a b ()) in an AFM tree"""
    stack = [cst]
    while stack:
        x = stack.pop()
        if isinstance(x, (list, tuple)):
            if len(x) == 3 and x[0] == "g" and isinstance(x[2], (list, tuple)) and len(x[2]) == 0 \
                    and str(x[1]) not in ("optional", "mandatory", "opt", "mand", "GOpt", "GMand"):
                raise ParserHypothesisViolated(f"parser:empty-group in {path}")
            if len(x) == 4 and x[0] == "ig" and isinstance(x[3], (list, tuple)) and len(x[3]) == 0:
                raise ParserHypothesisViolated(f"parser:empty-group in {path}")
            stack.extend(x)
    return cst


def exchange_cycles(writer_cls, reader_cls, path, cur, back, same, n=2):
    """history: ONE exchange file and ONE reader object for every cycle (the writer rewrites the file, the same reader
    reads it again): each read gives the model a fresh reader gave, and the models returned earlier keep their content"""
    fails = []
    reader = reader_cls(path)
    earlier = []
    for cyc in range(1, n + 1):
        writer_cls(path, cur).transform()
        cur = reader.transform()
        if not same(spec.dump_fm(cur), back):
            fails.append((f"exchange-cycle{cyc}:model-differs", "one reader object, file rewritten before every read"))
            break
        for fm, d in earlier:
            if spec.dump_fm(fm) != d:
                fails.append((f"exchange-cycle{cyc}:model-returned-earlier-changed", ""))
        earlier.append((cur, spec.dump_fm(cur)))
    return fails


REREAD_EVERY = 2          # check.py sets 1 for the thorough tier
_reads = [0]


class HistoryError(Exception):
    pass


def read_twice(reader_cls, path):
    """history: the same reader OBJECT asked twice (every REREAD_EVERY-th call) — the second answer is the one handed on,
    and the model returned first must not change while the second is read.  A reader that fails, fails at the first call
    as before."""
    reader = reader_cls(path)
    first = reader.transform()
    _reads[0] += 1
    if _reads[0] % REREAD_EVERY:
        return first
    before = sx.dumps(pdump(first))
    second = reader.transform()
    if sx.dumps(pdump(first)) != before:
        raise HistoryError("the model returned by the first transform() changed while the same reader read again")
    return second
