"""Suites W-uvl / P-uvl / R-uvl and the C01 oracle (UVL round trip); the reference emitter for C04."""
import contextlib
import io
import logging

import fmt
import gen
import spec
import sx
from spec import T, OP
from sx import Sym, NIL, tag
from suite_json import impl_write, same_spec
from suite_glencoe import equivalent

logging.disable(logging.CRITICAL)


# ------------------------------------------------------------------------------ ANTLR tree -> CST sexp
def parse_uvl(path):
    """(udoc ...) S-expression of the parse tree, or None when the parser reports a syntax error"""
    from antlr4 import CommonTokenStream, FileStream
    from uvl.UVLCustomLexer import UVLCustomLexer
    from uvl.UVLPythonParser import UVLPythonParser
    lexer = UVLCustomLexer(FileStream(path, encoding="utf-8"))
    listener = fmt.SyntaxErrors()
    lexer.removeErrorListeners()
    lexer.addErrorListener(listener)          # a character no token starts with is a syntax error too
    parser = UVLPythonParser(CommonTokenStream(lexer))
    parser.removeErrorListeners()
    parser.addErrorListener(listener)
    with contextlib.redirect_stderr(io.StringIO()):
        tree = parser.featureModel()
    if listener.errors:
        return None
    P = UVLPythonParser

    def value(v):
        if v.BOOLEAN():
            return tag("vb", v.BOOLEAN().getText())
        if v.FLOAT():
            t = v.FLOAT().getText()
            return tag("vf", t, repr(float(t)))
        if v.INTEGER():
            return tag("vi", v.INTEGER().getText())
        if v.STRING():
            return tag("vs", v.STRING().getText())
        if v.attributes():
            return attrs(v.attributes())
        if v.vector():
            return tag("vv", *[value(x) for x in v.vector().value()])
        return tag("vs", "<novalue>")

    def attrs(a):
        out = []
        for at in a.attribute():
            va, ca = at.valueAttribute(), at.constraintAttribute()
            if va:
                out.append(tag("av", va.key().getText(), value(va.value()) if va.value() else NIL))
            elif ca:
                out.append(tag("ac"))
            else:
                out.append(tag("ao"))
        return tag("va", *out)

    def feature(f):
        groups = []
        for g in f.group():
            if isinstance(g, P.OrGroupContext):
                k = Sym("or")
            elif isinstance(g, P.AlternativeGroupContext):
                k = Sym("alt")
            elif isinstance(g, P.OptionalGroupContext):
                k = Sym("opt")
            elif isinstance(g, P.MandatoryGroupContext):
                k = Sym("mand")
            else:
                k = tag("card", g.CARDINALITY().getText())
            groups.append(tag("g", k, [feature(c) for c in g.groupSpec().feature()]))
        return tag("uf", f.featureType().getText() if f.featureType() else NIL, f.reference().getText(),
                   f.featureCardinality().CARDINALITY().getText() if f.featureCardinality() else NIL,
                   attrs(f.attributes()) if f.attributes() else NIL, groups)
    BIN = {"AndConstraintContext": "AND", "OrConstraintContext": "OR", "ImplicationConstraintContext": "IMPLIES",
           "EquivalenceConstraintContext": "EQUIVALENCE"}
    ARI = {"AddExpressionContext": "ADD", "SubExpressionContext": "SUB", "MulExpressionContext": "MUL",
           "DivExpressionContext": "DIV"}
    EQ = {"EqualEquationContext": "EQUALS", "LowerEquationContext": "LOWER", "LowerEqualsEquationContext": "LOWER_EQUALS",
          "GreaterEquationContext": "GREATER", "GreaterEqualsEquationContext": "GREATER_EQUALS",
          "NotEqualsEquationContext": "NOT_EQUALS"}

    def cst(c):
        n = type(c).__name__
        if n in ("LiteralConstraintContext", "LiteralExpressionContext"):
            return tag("kl", c.reference().getText())
        if n == "NotConstraintContext":
            return tag("kn", cst(c.constraint()))
        if n in BIN:
            return tag("kb", Sym(BIN[n]), cst(c.constraint(0)), cst(c.constraint(1)))
        if n in ARI:
            return tag("kb", Sym(ARI[n]), cst(c.expression(0)), cst(c.expression(1)))
        if n == "EquationConstraintContext":
            e = c.equation()
            return tag("kb", Sym(EQ[type(e).__name__]), cst(e.expression(0)), cst(e.expression(1)))
        if n == "ParenthesisConstraintContext":
            return tag("kp", cst(c.constraint()))
        if n == "BracketExpressionContext":
            return tag("kp", cst(c.expression()))
        if n == "IntegerLiteralExpressionContext":
            return tag("ki", c.getText())
        if n == "FloatLiteralExpressionContext":
            return tag("kf", c.getText(), repr(float(c.getText())))
        if n == "StringLiteralExpressionContext":
            return tag("ks", c.getText())
        if n == "AggregateFunctionExpressionContext":
            a = c.aggregateFunction()
            an = type(a).__name__
            if an == "SumAggregateFunctionContext":
                return tag("ka", Sym("sum"), [r.getText() for r in a.reference()])
            if an == "AvgAggregateFunctionContext":
                return tag("ka", Sym("avg"), [r.getText() for r in a.reference()])
            if an == "StringAggregateFunctionExpressionContext":
                return tag("ka", Sym("len"), [a.stringAggregateFunction().reference().getText()])
            nf = a.numericAggregateFunction()
            kind = "floor" if type(nf).__name__ == "FloorAggregateFunctionContext" else "ceil"
            return tag("ka", Sym(kind), [nf.reference().getText()])
        return tag("kl", f"<unhandled {n}>")
    root = feature(tree.features().feature()) if tree.features() else NIL
    ctcs = NIL
    if tree.constraints():
        ctcs = [cst(line.constraint()) for line in tree.constraints().constraintLine()]
    return fmt.assert_no_empty_group(tag("udoc", root, ctcs), path)


# ------------------------------------------------------------------------------ the UVL fragment
UVL_NAME_CLASSES = ("plain", "space", "punct", "keyword", "lead", "nonascii", "uvlquote", "special_uvl", "long")
gen.NAME_CLASSES["uvlquote"] = ["it's", "a'b", "x'"]
gen.NAME_CLASSES["special_uvl"] = ["<a&b>", "a>b", "&amp;", "back\\slash", "tab\there", "]]>", "<!--", "a#b", "q?", "p%"]
UVL_LOGICAL = ["NOT", "AND", "OR", "IMPLIES", "EQUIVALENCE", "REQUIRES", "EXCLUDES"]


def uvl_value(g, depth=0):
    rng = g.rng
    k = rng.choice(["none", "bool", "int", "float", "str", "list", "map"] if depth < 2 else ["bool", "int", "float", "str"])
    g.count("attr_value", k)
    if k == "none":
        return None
    if k == "bool":
        return rng.random() < 0.5
    if k == "int":
        return rng.choice([0, 1, -1, 7, 42, -300, 10**6, 2**70, 2**53 + 1, 3**50, 10**22 + 7])
    if k == "float":
        return rng.choice([0.5, 1.25, -2.75, 3.0, 100.125, 0.1, -0.001, 12345.678, 0.0])
    if k == "str":
        return rng.choice(["x", "hello world", "ñ", "a-b", "UPPER", "with \"dq\"", "1", "true", " ", "C:\\new", "a\\nb\\t",
                           "back\\slash\\", "%d{x}"])
    if k == "list":
        n = rng.choice([1, 1, 2, 3])
        return [v for v in (uvl_value(g, depth + 1) for _ in range(n)) if v is not None] or [1]
    return {nm: uvl_value(g, depth + 1) for nm in g.names(rng.randint(1, 3), ("plain", "space", "keyword"))}


def uvl_model(g, n):
    rng = g.rng
    kinds = ("mandatory", "optional", "alternative", "or", "mutex", "card", "nn", "star")
    names = [x for x in g.names(n + 10, UVL_NAME_CLASSES)]
    root = g.tree(n, names=names[:n], kinds=kinds, typed=True, fcard=True, abstract=True, wide=True)
    attr_names = [a for a in g.names(5, ("plain", "space", "keyword", "nonascii", "lead")) if a != "abstract"]
    for f in spec.spec_features(root):
        if rng.random() < 0.35:
            for an in rng.sample(attr_names, rng.randint(1, 3)):
                f["attrs"].append(spec.A(an, default=uvl_value(g)))
        if f["cmax"] != 1 and rng.random() < 0.3:
            f["cmax"] = -1
    fnames = [f["name"] for f in spec.spec_features(root)]
    ctcs = []
    for i in range(rng.choice([0, 0, 1, 2, 3])):
        ctcs.append((f"c{i}", uvl_constraint(g, fnames, rng.randint(1, 3))))
    g.count("n_ctcs", len(ctcs))
    return dict(root=root, ctcs=ctcs)


def uvl_expr(g, names, depth):
    rng = g.rng
    if depth == 0 or rng.random() < 0.4:
        k = rng.randrange(6)
        if k == 0:
            return (("i", rng.choice([0, 1, 7, -3, 42])), None, None)
        if k == 1:
            return (("fl", rng.choice([0.5, 2.25, -1.5, 10.0])), None, None)
        if k == 2:
            return T("'" + rng.choice(["lit", "two words", "ñ"]) + "'")
        if k == 3:
            # a qualified feature.attribute reference; either part may need quotes of its own
            nm = rng.choice(names)
            at = rng.choice(["price", "size in GB", "ñ", "cost", "1st", "features"])
            if "." not in nm and '"' not in nm and not nm.startswith("'"):
                g.count("uvl_choice_model", "qualified-reference")
                if rng.random() < 0.3:
                    # a reference into a nested map attribute: three parts
                    g.count("uvl_choice_model", "qualified-reference-3-parts")
                    return T(nm + "." + at + "." + rng.choice(["power", "inner key", "x1"]))
                return T(nm + "." + at)
        return T(rng.choice(names))
    k = rng.randrange(7)
    if k < 4:
        op = ["ADD", "SUB", "MUL", "DIV"][k]
        g.count("ctc_op", op)
        return OP(op, uvl_expr(g, names, depth - 1), uvl_expr(g, names, depth - 1))
    if k == 4:
        op = rng.choice(["SUM", "AVG"])
        g.count("ctc_op", op)
        return OP(op, T(rng.choice(names)), T(rng.choice(names)) if rng.random() < 0.5 else None)
    op = rng.choice(["LEN", "FLOOR", "CEIL"])
    g.count("ctc_op", op)
    return OP(op, T(rng.choice(names)))


def uvl_constraint(g, names, depth):
    rng = g.rng
    if depth == 0 or rng.random() < 0.25:
        if rng.random() < 0.3:
            op = rng.choice(gen.COMPARISON)
            g.count("ctc_op", op)
            return OP(op, uvl_expr(g, names, 2), uvl_expr(g, names, 2))
        return T(rng.choice(names))
    op = rng.choice(UVL_LOGICAL)
    g.count("ctc_op", op)
    if op == "NOT":
        return OP(op, uvl_constraint(g, names, depth - 1))
    return OP(op, uvl_constraint(g, names, depth - 1), uvl_constraint(g, names, depth - 1))


def uvl_norm_node(n):
    if n is None:
        return None
    d, l, r = n
    if d[0] != "op":
        return n
    l2, r2 = uvl_norm_node(l), uvl_norm_node(r)
    if d[1] == "REQUIRES":
        return OP("IMPLIES", l2, r2)
    if d[1] == "EXCLUDES":
        return OP("IMPLIES", l2, OP("NOT", r2))
    return (d, l2, r2)


def is_logical_tree(n):
    d, l, r = n
    if d[0] == "s":
        return not d[1].startswith("'")
    if d[0] != "op" or d[1] not in gen.LOGICAL:
        return False
    return all(is_logical_tree(c) for c in (l, r) if c is not None)


# ------------------------------------------------------------------------------ the suites
def run(ctx):
    from flamapy.metamodels.fm_metamodel.transformations import UVLWriter, UVLReader
    w = ctx.suite("W-uvl")
    p = ctx.suite("P-uvl")
    r = ctx.suite("R-uvl")
    g = ctx.gen
    sc = fmt.Scratch()
    try:
        n_cases = 150 if ctx.tier == "quick" else 2500
        sizes = [1, 2, 3, 5, 8, 13] if ctx.tier == "quick" else [1, 2, 5, 12, 30, 80]
        for i in range(n_cases):
            m = uvl_model(g, g.rng.choice(sizes))
            check_model(ctx, sc, m, w, p, r, UVLWriter, UVLReader, "fragment")
        for m in gen.nest_models(UVL_LOGICAL, chunk=4):
            check_model(ctx, sc, m, w, p, r, UVLWriter, UVLReader, "nest-ctc")
        for m in gen.case_twin_models():
            check_model(ctx, sc, m, w, p, r, UVLWriter, UVLReader, "case-twins")
        # the same operator nested in itself for the non-associative arithmetic operators
        x, y, z = T("x"), T("y"), T("z")
        arith = []
        for o in ("SUB", "DIV", "ADD", "MUL"):
            arith.append(OP("GREATER", OP(o, x, OP(o, y, z)), (("i", 0), None, None)))
            arith.append(OP("GREATER", OP(o, OP(o, x, y), z), (("i", 0), None, None)))
        am = gen.free_model(arith, names=("x", "y", "z"))
        for f in spec.spec_features(am["root"]):
            if f["name"] != "R":
                f["type"] = "Integer"
        check_model(ctx, sc, am, w, p, r, UVLWriter, UVLReader, "nest-arith")
    finally:
        sc.close()


def check_model(ctx, sc, m, w, p, r, UVLWriter, UVLReader, label):
    req = sx.dumps(tag("uvl_write", spec.fm_sx(m)))
    mrep = ctx.model.call_raw(req)
    st, ret, data, after, path = impl_write(sc, m, UVLWriter, "uvl")
    irep = sx.dumps(tag("ok", ret)) if st[0] == "ok" else sx.dumps(tag("err", Sym(st[1])))
    w.record(label, req, irep, mrep, nontrivial=spec.spec_size(m["root"]) >= 2)
    if not same_spec(after, m):
        w.oracle_fail(label, req, "writer-modified-model", "")
    if st[0] != "ok":
        w.oracle_fail(label, req, "writer-raises", st[1])
        return
    if data.decode("utf-8") != ret:
        w.oracle_fail(label, req, "returned-differs-from-file", "")
    # ---- parser hypothesis on this document: parse(render (cst_of_fm m)) = cst_of_fm m
    cst = parse_uvl(path)
    preq = sx.dumps(tag("uvl_cst", spec.fm_sx(m)))
    mcst = ctx.model.call_raw(preq)
    p.record(label, preq, sx.dumps(tag("ok", cst)) if cst is not None else "(syntax-error)", mcst)
    if cst is None:
        r.oracle_fail(label, req, "writer-output-has-syntax-errors", ret[:300])
        return
    # ---- reader on the parse tree
    rreq = sx.dumps(tag("uvl_read_cst", cst))
    mread = ctx.model.call_raw(rreq)
    holder = {}

    def read_file():
        holder["fm"] = fmt.read_twice(UVLReader, path)
        return holder["fm"]
    iread = sx.dumps(fmt.result_pfm(read_file))
    r.record(label, rreq, iread, mread)
    if "fm" not in holder:
        r.oracle_fail(label, req, "reader-raises-on-writer-output", iread[:200])
        return
    cur = holder["fm"]
    back = spec.dump_fm(cur)
    diffs = fmt.spec_equal(m, back)
    if len(back["ctcs"]) != len(m["ctcs"]):
        diffs.append(f"{len(back['ctcs'])} constraints instead of {len(m['ctcs'])}")
    else:
        for (n1, a), (n2, b) in zip(m["ctcs"], back["ctcs"]):
            if is_logical_tree(a):
                if not equivalent(a, b):
                    diffs.append(f"constraint {n1} not equivalent")
            elif uvl_norm_node(a) != b:
                diffs.append(f"constraint {n1} differs")
    if diffs:
        r.oracle_fail(label, req, "roundtrip:same-model", "; ".join(diffs[:4]))
    for fail in fmt.graph_wf(cur):
        r.oracle_fail(label, req, "graph:" + fail[0], fail[1])
    text = data
    for cyc in range(2, 5):
        p2 = sc.path("uvl")
        t2 = UVLWriter(p2, cur).transform().encode("utf-8")
        if t2 != text:
            r.oracle_fail(label, req, f"cycle{cyc}:text-differs", "")
            break
        cur = UVLReader(p2).transform()
        if not same_spec(spec.dump_fm(cur), back):
            r.oracle_fail(label, req, f"cycle{cyc}:model-differs", "")
            break
    for c_, d_ in fmt.exchange_cycles(UVLWriter, UVLReader, sc.path("uvl"), cur, back, same_spec):
        r.oracle_fail(label, req, c_, d_)


# ------------------------------------------------------------------------------ C04: reference emitter
PREC = {"EQUIVALENCE": 1, "IMPLIES": 2, "REQUIRES": 2, "EXCLUDES": 2, "OR": 3, "AND": 4}
SYM = {"AND": "&", "OR": "|", "IMPLIES": "=>", "REQUIRES": "=>", "EQUIVALENCE": "<=>",
       "EQUALS": "==", "LOWER": "<", "GREATER": ">", "LOWER_EQUALS": "<=", "GREATER_EQUALS": ">=",
       "NOT_EQUALS": "!=", "ADD": "+", "SUB": "-", "MUL": "*", "DIV": "/"}
KEYWORDS = {"include", "namespace", "imports", "as", "features", "cardinality", "constraint", "constraints",
            "sum", "avg", "len", "floor", "ceil", "String", "Integer", "Real", "Boolean", "Arithmetic", "Type",
            "or", "alternative", "optional", "mandatory", "true", "false"}


def emit_uvl(m, rng, g):
    """an independent emitter of UVL text from a reference model, using the language's surface freedom"""
    import re

    def ident(name):
        parts = name.split(".")
        out = []
        for p in parts:
            plain = re.fullmatch(r"[A-Za-z][A-Za-z0-9_]*", p) and p not in KEYWORDS
            if plain and rng.random() < 0.7:
                out.append(p)
            else:
                if plain:
                    g.count("uvl_choice", "quoted-though-plain")
                out.append('"' + p + '"')
        return ".".join(out)

    def value(v):
        if isinstance(v, bool):
            return "true" if v else "false"
        if isinstance(v, str):
            return "'" + v + "'"
        if isinstance(v, float):
            return repr(v)
        if isinstance(v, list):
            inner = ", ".join(value(x) for x in v)
            return "[ " + inner + " ]" if len(v) == 1 and isinstance(v[0], int) and not isinstance(v[0], bool) else "[" + inner + "]"
        if isinstance(v, dict):
            return "{" + ", ".join(ident(k) + ("" if x is None else " " + value(x)) for k, x in v.items()) + "}"
        return str(v)
    lines = []

    def cmt():
        if rng.random() < 0.15:
            g.count("uvl_choice", "eol-comment")
            return " // note"
        return ""

    def feat(f, depth):
        head = ""
        if f["type"] != "Boolean":
            head += f["type"] + " "
        elif rng.random() < 0.2:
            head += "Boolean "
            g.count("uvl_choice", "explicit-Boolean")
        head += ident(f["name"])
        if (f["cmin"], f["cmax"]) != (1, 1):
            head += f" cardinality [{f['cmin']}..{'*' if f['cmax'] == -1 else f['cmax']}]"
        items = (["abstract"] if f["abstract"] else []) + \
                [ident(a["name"]) + ("" if a["default"] is None else " " + value(a["default"])) for a in f["attrs"]]
        if items:
            head += " {" + ", ".join(items) + "}"
        lines.append("\t" * depth + head + cmt())
        rels = list(f["rels"])
        i = 0
        while i < len(rels):
            r = rels[i]
            n = len(r["children"])
            key = (r["min"], r["max"], n)
            block = [r]
            if key in ((1, 1, 1), (0, 1, 1)):
                kw = "mandatory" if r["min"] == 1 else "optional"
                # several children under one keyword
                while i + 1 < len(rels) and (rels[i + 1]["min"], rels[i + 1]["max"], len(rels[i + 1]["children"])) == key \
                        and rng.random() < 0.6:
                    i += 1
                    block.append(rels[i])
                if len(block) > 1:
                    g.count("uvl_choice", "several-children-one-keyword")
            elif n > 1 and (r["min"], r["max"]) == (1, 1):
                kw = "alternative"
            elif n > 1 and (r["min"], r["max"]) == (1, n):
                kw = "or"
            elif r["min"] == r["max"]:
                kw = f"[{r['min']}]" if rng.random() < 0.5 else f"[{r['min']}..{r['max']}]"
            else:
                kw = f"[{r['min']}..{'*' if r['max'] == -1 else r['max']}]"
            lines.append("\t" * (depth + 1) + kw + cmt())
            for b in block:
                for c in b["children"]:
                    feat(c, depth + 2)
            i += 1

    def expr(n):
        d, l, r = n
        if d[0] == "s":
            return d[1] if d[1].startswith("'") else ident(d[1])
        if d[0] == "i":
            return str(d[1])
        if d[0] == "fl":
            return repr(d[1])
        op = d[1]
        if op in ("SUM", "AVG"):
            return op.lower() + "(" + ", ".join(ident(x[0][1]) for x in (l, r) if x is not None) + ")"
        if op in ("LEN", "FLOOR", "CEIL"):
            return op.lower() + "(" + ident(l[0][1]) + ")"
        a, b = expr(l), expr(r)
        if l[0][0] == "op" and l[0][1] in SYM:
            a = "(" + a + ")"
        if r[0][0] == "op" and r[0][1] in SYM:
            b = "(" + b + ")"
        return f"{a} {SYM[op]} {b}"

    def ctc(n, parent_prec=0, right_side=False):
        d, l, r = n
        if d[0] != "op":
            s = expr(n)
        elif d[1] == "NOT":
            inner = ctc(l, 9)
            s = "!" + inner
        elif d[1] in PREC:
            p = PREC[d[1]]
            if d[1] == "EXCLUDES":
                s = ctc(l, p) + " => !" + ctc(r, 9)
            else:
                s = ctc(l, p) + " " + SYM[d[1]] + " " + ctc(r, p, True)
            if p < parent_prec or (p == parent_prec and right_side) or (parent_prec == 9):
                return "(" + s + ")"
            if rng.random() < 0.15:
                g.count("uvl_choice", "redundant-parentheses")
                return "(" + s + ")"
            return s
        else:
            s = expr(n)       # comparison
            if parent_prec == 9:
                return "(" + s + ")"
            return s
        if rng.random() < 0.1 and d[0] == "s" and not d[1].startswith("'"):
            g.count("uvl_choice", "redundant-parentheses")
            return "(" + s + ")"
        return s
    head = []          # grammar order: namespace, include, imports (no blank lines between them)
    if rng.random() < 0.3:
        head.append("namespace NS" + str(rng.randrange(9)))
        g.count("uvl_choice", "namespace")
    if rng.random() < 0.2:
        head += ["include", "\tBoolean.group-cardinality", "\tArithmetic.*"]
        g.count("uvl_choice", "include")
    if rng.random() < 0.2:
        head += ["imports", "\tOther as O", "\tThird"]
        g.count("uvl_choice", "imports")
    lines.append("features" + cmt())
    feat(m["root"], 1)
    if m["ctcs"]:
        if rng.random() < 0.5:
            lines.append("")
        lines.append("constraints")
        for _, a in m["ctcs"]:
            lines.append("\t" + ctc(a) + cmt())
    return "\n".join(head + lines) + "\n"


def invalidate(text, rng, g):
    kind = rng.randrange(9)
    g.count("uvl_invalid", kind)
    lines = text.split("\n")
    if kind in (7, 8):
        # errors reported by the LEXER: a character no token can start with; an empty string literal
        a, b = rng.sample(["A", "B", "C", "Dd", "E1"], 2)
        if kind == 7:
            bad = rng.choice(["$", "#", "@", "`", "^"])
            where = rng.randrange(3)
            if where == 0:
                return f"features\n\t{a}\n\t\toptional\n\t\t\t{b} {bad}\n"
            if where == 1:
                return f"features\n\t{a}\n\t\toptional\n\t\t\t{b}\nconstraints\n\t{a} {bad} {b}\n"
            return f"features\n\t{a} {{k {bad}}}\n"
        return f"features\n\t{a} {{k ''}}\n\t\toptional\n\t\t\t{b}\n"
    if kind in (5, 6):
        # errors the parser reports AT A LINE BREAK: a bracket left open on the last constraint line;
        # an operator without right operand at the end of a constraint line followed by another one
        a, b, c = rng.sample(["A", "B", "C", "Dd", "E1"], 3)
        head = f"features\n\t{a}\n\t\toptional\n\t\t\t{b}\n\t\t\t{c}\nconstraints\n"
        op = rng.choice(["|", "&", "=>", "<=>"])
        if kind == 5:
            return head + rng.choice(["", f"\t{b} => {c}\n"]) + f"\t({a} {op} {b} & {c}\n"
        return head + f"\t{a} {op} {rng.choice(['!', b + ' &', b + ' |'])}\n\t{c}\n"
    if kind == 0:      # unbalanced bracket
        idx = [i for i, l in enumerate(lines) if "{" in l or "(" in l or "[" in l]
        if idx:
            i = rng.choice(idx)
            for ch in "{([":
                if ch in lines[i]:
                    close = {"{": "}", "(": ")", "[": "]"}[ch]
                    if close in lines[i]:
                        lines[i] = lines[i][::-1].replace(close, "", 1)[::-1]
                        return "\n".join(lines)
        lines.append("\t(A")
        return "\n".join(["features", "\tA", "constraints"] + lines[-1:]) + "\n"
    if kind == 1:      # stray operator
        return text.rstrip("\n") + ("\n\t&\n" if "constraints" in text else "\nconstraints\n\t& A\n")
    if kind == 2:      # missing section keyword
        return text.replace("features", "feature", 1)
    if kind == 3:      # broken indentation: a group keyword with children at the same level
        return "features\n\tA\n\t\tmandatory\n\t\tB\n"
    return text.replace("\n\t", "\n\t| ", 1)


def run_c04(ctx):
    from flamapy.metamodels.fm_metamodel.transformations import UVLReader
    r = ctx.suite("R-uvl-emitter")
    p = ctx.suite("P-uvl-invalid")
    g = ctx.gen
    sc = fmt.Scratch()
    try:
        n_cases = 150 if ctx.tier == "quick" else 2500

        def models():
            for i in range(n_cases):
                yield uvl_model(g, g.rng.choice([1, 2, 4, 7, 12]))
            # constraint lines that repeat, or differ only in letter case; numbering past 9
            for m in gen.case_twin_models(cardinal=True):
                if spec.spec_size(m["root"]) <= 20:
                    yield m
        for m in models():
            text = emit_uvl(m, g.rng, g)
            path = sc.path("uvl")
            with open(path, "w", encoding="utf-8") as fh:
                fh.write(text)
            cst = parse_uvl(path)
            if cst is None:
                r.oracle_fail("emitter", sx.dumps(text), "valid-document-rejected-by-parser", text[:300])
                continue
            rreq = sx.dumps(tag("uvl_read_cst", cst))
            mread = ctx.model.call_raw(rreq)
            holder = {}

            def read_file():
                holder["fm"] = fmt.read_twice(UVLReader, path)
                return holder["fm"]
            iread = sx.dumps(fmt.result_pfm(read_file))
            r.record("emitter", rreq, iread, mread)
            if "fm" not in holder:
                r.oracle_fail("emitter", sx.dumps(text), "reader-raises-on-valid-document", iread[:200])
                continue
            back = spec.dump_fm(holder["fm"])
            diffs = fmt.spec_equal(m, back)
            if len(back["ctcs"]) != len(m["ctcs"]):
                diffs.append(f"{len(back['ctcs'])} constraints instead of {len(m['ctcs'])}")
            else:
                for (n1, a), (n2, b) in zip(m["ctcs"], back["ctcs"]):
                    if uvl_norm_node(a) != b:
                        diffs.append(f"constraint {n1} differs: {b}")
            if diffs:
                r.oracle_fail("emitter", sx.dumps(text), "denotes:same-model", "; ".join(diffs[:3]))
            for fail in fmt.graph_wf(holder["fm"], written=fmt.written_names(m)):
                r.oracle_fail("emitter", sx.dumps(text), "graph:" + fail[0], fail[1])
            # negative case made from this document
            bad = invalidate(text, g.rng, g)
            bpath = sc.path("uvl")
            with open(bpath, "w", encoding="utf-8") as fh:
                fh.write(bad)
            bcst = parse_uvl(bpath)
            reader = UVLReader(bpath)
            try:
                reader.transform()
                outcome = "returned-a-model"
            except Exception as e:  # noqa: BLE001
                outcome = "raised " + spec.exn_name(e)
            if outcome.startswith("raised"):
                # the same reader object asked again: the document has not become valid in between
                try:
                    reader.transform()
                    p.oracle_fail("invalid", sx.dumps(bad), "syntax-error-not-raised",
                                  "second transform() on the same reader returned a model")
                except Exception:  # noqa: BLE001
                    pass
            expected = "raised FlamaException" if bcst is None else outcome
            p.record("invalid", sx.dumps(bad), outcome, expected)
            if bcst is None and not outcome.startswith("raised"):
                p.oracle_fail("invalid", sx.dumps(bad), "syntax-error-not-raised", outcome)
            if bcst is not None:
                ctx.notes.append("an 'invalid by construction' document parsed without error")
    finally:
        sc.close()


# ------------------------------------------------------------------------------ documents of the known findings (C04)
def run_c04_known(ctx):
    """fixed documents reproducing the open findings of C04 (most of them rooted in the uvlparser dependency): each has a
    control variant that differs only in the construct concerned and must be read correctly, so that a failure is
    attributable; failures are reported under the clause  known:<finding key>:...  and matched with known_findings.json"""
    from flamapy.metamodels.fm_metamodel.transformations import UVLReader
    st = ctx.suite("R-uvl-known")
    sc = fmt.Scratch()
    F, R, A = spec.F, spec.R, spec.A
    RAISE = "raise"

    def num(i):
        return (("i", i), None, None)

    base = dict(root=F("A", [R(1, 1, [F("B")]), R(1, 1, [F("C")])]),
                ctcs=[("c0", OP("IMPLIES", T("B"), T("C"))), ("c1", OP("IMPLIES", T("C"), T("B")))])
    plain = "features\n    A\n        mandatory\n            B\n            C\nconstraints\n    B => C\n    C => B\n"
    ax = dict(root=F("A", attrs=[A("x", default=1)]), ctcs=[])

    def arith(txt, node):
        return ("features\n    A {x 1}\nconstraints\n    " + txt + "\n", dict(ax, ctcs=[("c0", node)]))
    X = T("A.x")
    docs = [
        # (finding key or None for a control, label, text, expected)
        (None, "control:plain", plain, base),
        ("uvl-parser-comment-or-blank-line-inside-block", "comment line between two children",
         plain.replace("            C\n", "            // second child\n            C\n"), base),
        ("uvl-parser-comment-or-blank-line-inside-block", "comment line at column 0",
         plain.replace("            C\n", "// second child\n            C\n"), base),
        ("uvl-parser-comment-or-blank-line-inside-block", "comment line between two constraints",
         plain.replace("    C => B\n", "    // other direction\n    C => B\n"), base),
        ("uvl-parser-comment-or-blank-line-inside-block", "empty line inside the features block",
         plain.replace("            C\n", "\n            C\n"), base),
        ("uvl-parser-comment-or-blank-line-inside-block", "two empty lines before constraints",
         plain.replace("constraints\n", "\n\nconstraints\n"), base),
        (None, "control:end-of-line comment", plain.replace("            B\n", "            B // first\n"), base),
        (None, "control:(A.x - 2) + 3 > 1", *arith("(A.x - 2) + 3 > 1", OP("GREATER", OP("ADD", OP("SUB", X, num(2)), num(3)), num(1)))),
        ("uvl-grammar-arithmetic-precedence", "A.x - 2 + 3 > 1", *arith("A.x - 2 + 3 > 1", OP("GREATER", OP("ADD", OP("SUB", X, num(2)), num(3)), num(1)))),
        ("uvl-grammar-arithmetic-precedence", "A.x * 2 + 3 > 1", *arith("A.x * 2 + 3 > 1", OP("GREATER", OP("ADD", OP("MUL", X, num(2)), num(3)), num(1)))),
        ("uvl-grammar-arithmetic-precedence", "A.x + 2 * 3 > 1", *arith("A.x + 2 * 3 > 1", OP("GREATER", OP("ADD", X, OP("MUL", num(2), num(3))), num(1)))),
        ("uvl-grammar-arithmetic-precedence", "A.x / 2 * 3 > 1", *arith("A.x / 2 * 3 > 1", OP("GREATER", OP("MUL", OP("DIV", X, num(2)), num(3)), num(1)))),
        (None, "control:list [1, 2]", "features\n    A {v [1, 2]}\n", dict(root=F("A", attrs=[A("v", default=[1, 2])]), ctcs=[])),
        ("uvl-lexer-one-integer-list", "list [1]", "features\n    A {v [1]}\n", dict(root=F("A", attrs=[A("v", default=[1])]), ctcs=[])),
        ("uvl-lexer-one-integer-list", "list [[1, 2], [3]]", "features\n    A {v [[1, 2], [3]]}\n",
         dict(root=F("A", attrs=[A("v", default=[[1, 2], [3]])]), ctcs=[])),
        (None, "control:string 'v1_0'", "features\n    A {s 'v1_0'}\n", dict(root=F("A", attrs=[A("s", default="v1_0")]), ctcs=[])),
        ("uvl-lexer-string-with-dot-or-empty", "string 'v1.0'", "features\n    A {s 'v1.0'}\n",
         dict(root=F("A", attrs=[A("s", default="v1.0")]), ctcs=[])),
        ("uvl-lexer-string-with-dot-or-empty", "empty string", "features\n    A {s ''}\n",
         dict(root=F("A", attrs=[A("s", default="")]), ctcs=[])),
        ("uvl-reader-constraint-attribute", "constraint attribute",
         "features\n    A {x 1, constraint A => B, y 2}\n        optional\n            B\n",
         dict(root=F("A", [R(0, 1, [F("B")])], attrs=[A("x", default=1), A("y", default=2)]),
              ctcs=[("c0", OP("IMPLIES", T("A"), T("B")))])),
        (None, "control:aligned dedent", "features\n    A\n        mandatory\n            B\n        optional\n            C\n",
         dict(root=F("A", [R(1, 1, [F("B")]), R(0, 1, [F("C")])]), ctcs=[])),
        ("uvl-lexer-misaligned-dedent-accepted", "optional at column 10 beside mandatory at column 8",
         "features\n    A\n        mandatory\n            B\n          optional\n            C\n", RAISE),
        ("uvl-lexer-misaligned-dedent-accepted", "constraints at column 2",
         "features\n    A\n        mandatory\n            B\n  constraints\n    B\n", RAISE),
    ]
    try:
        for key, label, text, expected in docs:
            path = sc.path("uvl")
            with open(path, "w", encoding="utf-8") as fh:
                fh.write(text)
            cst = parse_uvl(path)
            mread = ctx.model.call_raw(sx.dumps(tag("uvl_read_cst", cst))) if cst is not None else "(err FlamaException)"
            holder = {}

            def read_file():
                with contextlib.redirect_stderr(io.StringIO()):
                    holder["fm"] = fmt.read_twice(UVLReader, path)
                return holder["fm"]
            logging.disable(logging.CRITICAL)
            try:
                iread = sx.dumps(fmt.result_pfm(read_file))
            finally:
                logging.disable(logging.NOTSET)
            st.record(label, sx.dumps(text), iread, mread)
            clause = f"known:{key}:{label}" if key else label
            if expected == RAISE:
                if "fm" in holder:
                    st.oracle_fail(label, sx.dumps(text), clause, "a model was returned for a document with a syntax error")
                continue
            if "fm" not in holder:
                st.oracle_fail(label, sx.dumps(text), clause, "valid document rejected: " + iread[:120])
                continue
            back = spec.dump_fm(holder["fm"])
            diffs = fmt.spec_equal(expected, back)
            if [a for _, a in back["ctcs"]] != [uvl_norm_node(a) for _, a in expected["ctcs"]]:
                diffs.append(f"constraints read: {[a for _, a in back['ctcs']]}")
            if diffs:
                st.oracle_fail(label, sx.dumps(text), clause, "; ".join(str(d) for d in diffs[:3])[:400])
    finally:
        sc.close()
