"""Suites for C19: sequences of executions on one operation object / one model through several
operations (results depend only on the current argument, nothing is mutated), and
GenerateRandomAttribute with the draws of the random module recorded and replayed into the model."""
import copy
import random
from fractions import Fraction

import gen
import spec
import sx
import suite_o
import suite_m
from sx import Sym, NIL, tag

KEYS = ["estimate", "core", "atomic", "count_leafs", "leaf_features", "max_depth", "abf", "ancestors", "vps"]


def run_history(ctx):
    """up to three models on the same operation objects, in every order of interleaving with fresh ones"""
    from flamapy.metamodels.fm_metamodel.operations import FMMetrics
    st = ctx.suite("O-history")
    g = ctx.gen
    import pristine
    clean = pristine.Client()    # evaluates one model in a process where nothing was analysed before
    kinds = ("mandatory", "optional", "alternative", "or", "mutex", "card", "nn", "star")
    for i in range(60 if ctx.tier == "quick" else 800):
        shared = suite_o.PersistentOps()
        shared_metrics = FMMetrics()
        direct_metrics = FMMetrics()
        # models that look alike (same names in other positions, equal-but-different models)
        base = g.model(g.rng.choice([1, 3, 5, 8]), kinds=kinds, ctc_depth=2, abstract=True)
        bn = [f["name"] for f in spec.spec_features(base["root"])]
        if len(bn) >= 4 and g.rng.random() < 0.5:
            # AND/OR only, an AND under an OR under an OR: the shape the core's in-place CNF step rewrites
            a, b, c, d = (spec.T(x) for x in g.rng.sample(bn, 4))
            base["ctcs"].append(("andor", g.rng.choice([spec.OP("OR", spec.OP("OR", spec.OP("AND", a, b), c), d),
                                                         spec.OP("OR", a, spec.OP("OR", b, spec.OP("AND", c, d)))])))
        seq = [base]
        m2 = copy.deepcopy(base)
        feats = list(spec.spec_features(m2["root"]))
        g.rng.choice(feats)["abstract"] = True
        if m2["ctcs"]:
            m2["ctcs"][0] = (m2["ctcs"][0][0] + "_renamed", m2["ctcs"][0][1])
        for f in feats:
            for r in f["rels"]:
                g.rng.shuffle(r["children"])
        seq.append(m2)
        names = [f["name"] for f in spec.spec_features(base["root"])]
        g.rng.shuffle(names)
        seq.append(g.model(len(names), names=names, kinds=kinds, ctc_depth=2))
        for j, m in enumerate(seq):
            fm = spec.build_fm(m)
            before = sx.dumps(spec.fm_sx(spec.dump_fm(fm)))
            got = suite_o.impl_ops(fm, KEYS, shared)
            fresh = suite_o.impl_ops(fm, KEYS, suite_o.PersistentOps())
            mid = sx.dumps(spec.fm_sx(spec.dump_fm(fm)))
            req = sx.dumps(tag("ops", spec.fm_sx(m)))
            mrep = suite_o.model_ops(sx.loads(ctx.model.call_raw(req)), KEYS)
            st.record(f"seq{j}", req, repr(got), repr(mrep))
            if got != fresh:
                bad = [k for k in KEYS if got[k] != fresh[k]]
                st.oracle_fail(f"seq{j}", req, "result-depends-on-earlier-executions", str(bad))
            alone = clean.call(m, KEYS, metrics=True)
            if "error" in alone:
                raise RuntimeError("pristine evaluation failed: " + alone["error"])
            if alone["ops"] != repr(got):
                st.oracle_fail(f"seq{j}", req, "result-differs-from-a-process-that-analysed-nothing-before",
                               f"{alone['ops'][:150]} vs {repr(got)[:150]}")
            if mid != before:
                st.oracle_fail(f"seq{j}", req, "read-only-operation-mutated-the-model", "")
            try:
                rep = suite_m.canon_impl(shared_metrics.execute(fm).get_result())
                rep2 = suite_m.canon_impl(FMMetrics().execute(fm).get_result())
                if rep != rep2:
                    st.oracle_fail(f"seq{j}", req, "metrics-depend-on-earlier-executions", "")
                if suite_m.canon_impl(direct_metrics.calculate_metamodel_metrics(fm)) != rep2:
                    st.oracle_fail(f"seq{j}", req, "metrics-depend-on-earlier-executions",
                                   "calculate_metamodel_metrics on one object for every model")
                if repr(rep) != alone.get("metrics"):
                    st.oracle_fail(f"seq{j}", req, "metrics-differ-from-a-process-that-analysed-nothing-before", "")
            except Exception as e:  # noqa: BLE001
                st.oracle_fail(f"seq{j}", req, "metrics-raise", spec.exn_name(e))
            if sx.dumps(spec.fm_sx(spec.dump_fm(fm))) != before:
                st.oracle_fail(f"seq{j}", req, "metrics-mutated-the-model", "")
            if j == 0:
                # the same model OBJECT edited in place and analysed again by the same operation objects
                b2 = spec.same_shape_variant(m, g.rng)
                spec.retarget(fm, b2)
                req2 = sx.dumps(tag("ops", spec.fm_sx(b2)))
                got2 = suite_o.impl_ops(fm, KEYS, shared)
                st.record("edited-in-place", req2, repr(got2), repr(suite_o.model_ops(sx.loads(ctx.model.call_raw(req2)), KEYS)))
                alone2 = clean.call(b2, KEYS)
                if "error" not in alone2 and alone2["ops"] != repr(got2):
                    st.oracle_fail("edited-in-place", req2, "result-depends-on-the-model-before-the-edit", "")
    clean.close()


# ------------------------------------------------------------------------------ GenerateRandomAttribute
class Recorder:
    """wraps random.choice / uniform / randint (the three functions the operation calls) and records
    the draws; every other use of the random module is untouched"""

    def __init__(self, rng):
        self.rng = rng
        self.draws = []
        self.saved = None

    def __enter__(self):
        self.saved = (random.choice, random.uniform, random.randint)

        def choice(seq):
            i = self.rng.randrange(len(seq))
            self.draws.append(tag("c", i))
            return seq[i]

        def uniform(a, b):
            u = self.rng.uniform(a, b)
            n, d = float(u).as_integer_ratio()
            self.draws.append(tag("u", n, d))
            return u

        def randint(a, b):
            z = self.rng.randint(a, b)
            self.draws.append(tag("r", z))
            return z
        random.choice, random.uniform, random.randint = choice, uniform, randint
        return self

    def __exit__(self, *a):
        random.choice, random.uniform, random.randint = self.saved


def rand_domain(g):
    rng = g.rng
    kind = rng.choice(["elems", "ints", "floats", "mixed", "exp-floats", "several", "empty"])
    g.count("domain_kind", kind)
    elems = rng.sample(["low", "mid", "high", 1, 2.5, True, "two words"], rng.randint(1, 4))
    irange = (rng.randint(-20, 5), rng.randint(5, 50))
    if rng.random() < 0.25:
        # integer bounds no double can hold
        irange = rng.choice([(2**53 + 1, 2**53 + 1), (2**53 + 1, 2**53 + 5), (-(2**60) - 3, -(2**60) - 1), (10**22 + 7, 10**22 + 9)])
    frange = rng.choice([(0.5, 2.75), (0.0, 1.0), (-3.25, 3.5), (10.0, 10.5), (1, 2.5), (0.125, 4)])
    if kind == "empty":
        return dict(ranges=[], elems=[])       # nothing to draw: a library error, like a missing domain
    if kind == "elems":
        if rng.random() < 0.25:
            # only elements that Python treats as false: still a domain with something to draw
            return dict(ranges=[], elems=rng.choice([[0], [False], [""], [0, 0.0, ""], [0.0]]))
        return dict(ranges=[], elems=elems)
    if kind == "ints":
        return dict(ranges=[irange], elems=[])
    if kind == "floats":
        return dict(ranges=[frange], elems=[])
    if kind == "exp-floats":
        return dict(ranges=[rng.choice([(1e-05, 0.0001), (1e-07, 2e-07), (1e+16, 2e+16)])], elems=[])
    if kind == "several":
        return dict(ranges=[irange, frange, (100, 200)], elems=[])
    return dict(ranges=[irange, frange], elems=elems)


def value_in_domain(v, d):
    for e in d["elems"]:
        if type(e) is type(v) and e == v:
            return True
    for lo, hi in d["ranges"]:
        if isinstance(lo, int) and isinstance(hi, int) and not isinstance(v, bool):
            if isinstance(v, int) and lo <= v <= hi:
                return True
        elif isinstance(v, float) and lo <= v <= hi:
            return True
    return False


def to_float_text(av):
    """the model's tagged decimal -> the repr of the nearest double"""
    if isinstance(av, float):
        return av
    return av


def canon_generated(spec_fm):
    """model side: VFloat 'dec m e' -> float"""
    def fix(v):
        return v
    return spec_fm


def run_genrandom(ctx):
    from flamapy.metamodels.fm_metamodel.operations.fm_generate_random_attribute import GenerateRandomAttribute
    from flamapy.core.exceptions import FlamaException
    st = ctx.suite("O-genrandom")
    g = ctx.gen
    kinds = ("mandatory", "optional", "alternative", "or", "mutex", "card")
    for i in range(200 if ctx.tier == "quick" else 3000):
        m = g.model(g.rng.choice([1, 2, 4, 7, 12]), kinds=kinds, ctc_depth=2,
                    name_classes=("plain", "space", "keyword", "nonascii"))
        d = rand_domain(g)
        name = g.rng.choice(["cost", "my attr", "ñ"])
        only_leaf = g.rng.random() < 0.5
        # some features already carry the attribute
        for f in spec.spec_features(m["root"]):
            if g.rng.random() < 0.25:
                f["attrs"].append(spec.A(name, default=g.rng.choice(["preset", None, 0, False, ""])))
            if g.rng.random() < 0.2:
                f["attrs"].append(spec.A("other", default=7))
            if g.rng.random() < 0.2:
                f["attrs"].append(spec.A(name + "_max", default=9))     # contains the requested name, is not it
        fm = spec.build_fm(m)
        op = GenerateRandomAttribute()
        op.set_name(name)
        op.set_domain(spec.build_domain(d))
        op.set_only_leaf_features(only_leaf)
        rec = Recorder(random.Random(g.rng.getrandbits(64)))
        try:
            with rec:
                res = op.execute(fm).get_result()
            after = spec.dump_fm(res)
            same_object = res is fm
            # round(-0.0027, 2) is -0.0 in Python and the decimal 0 in the model: the same number
            irep = sx.dumps(tag("ok", spec.fm_sx(after))).replace('(fl "-0.0")', '(fl "0.0")')
        except Exception as e:  # noqa: BLE001
            after = None
            irep = sx.dumps(tag("err", Sym(spec.exn_name(e))))
        req = sx.dumps(tag("genrandom", name, spec.domain_sx(d), only_leaf, rec.draws, spec.fm_sx(m)))
        mrep = sx.loads(ctx.model.call_raw(req))
        mrep = sx.dumps(resolve_decimals(mrep))
        st.record("gen", req, irep, mrep)
        if not d["ranges"] and not d["elems"]:
            # no value can be drawn: a library error like a missing domain, and the model stays as it was
            if irep != "(err FlamaException)":
                st.oracle_fail("gen", req, "empty-domain-is-a-library-error", irep[:200])
            if sx.dumps(spec.fm_sx(spec.dump_fm(fm))) != sx.dumps(spec.fm_sx(m)):
                st.oracle_fail("gen", req, "rest-of-the-model-changed", "after the error")
            continue
        if after is None:
            st.oracle_fail("gen", req, "raises", irep)
            continue
        # oracle from the property text
        before_feats = {f["name"]: f for f in spec.spec_features(m["root"])}
        for f in spec.spec_features(after["root"]):
            b = before_feats[f["name"]]
            targeted = (not only_leaf or not b["rels"]) and not any(a["name"] == name for a in b["attrs"])
            if targeted:
                if len(f["attrs"]) != len(b["attrs"]) + 1 or f["attrs"][:-1] != b["attrs"]:
                    st.oracle_fail("gen", req, "targeted-feature:exactly-one-attribute-added", f["name"])
                    continue
                a = f["attrs"][-1]
                if a["name"] != name or a["domain"] != spec.dump_domain(spec.build_domain(d)):
                    st.oracle_fail("gen", req, "new-attribute:name-and-domain", f["name"])
                if not value_in_domain(a["default"], d):
                    st.oracle_fail("gen", req, "new-attribute:value-in-domain", f"{a['default']!r} not in {d}")
            elif f["attrs"] != b["attrs"]:
                st.oracle_fail("gen", req, "untargeted-feature-changed", f["name"])
        stripped = copy.deepcopy(after)
        for f, b in zip(spec.spec_features(stripped["root"]), spec.spec_features(m["root"])):
            f["attrs"] = b["attrs"]
        if sx.dumps(spec.fm_sx(stripped)) != sx.dumps(spec.fm_sx(m)):
            st.oracle_fail("gen", req, "rest-of-the-model-changed", "")
    # a missing domain is a library error
    for only_leaf in (False, True):
        m = dict(root=spec.F("R", [spec.R(0, 1, [spec.F("A")])]), ctcs=[])
        op = GenerateRandomAttribute()
        op.set_name("x")
        op.set_only_leaf_features(only_leaf)
        try:
            op.execute(spec.build_fm(m))
            irep = "(ok)"
        except Exception as e:  # noqa: BLE001
            irep = sx.dumps(tag("err", Sym(spec.exn_name(e))))
        req = sx.dumps(tag("genrandom", "x", NIL, only_leaf, [], spec.fm_sx(m)))
        st.record("no-domain", req, irep, ctx.model.call_raw(req))
        if irep != "(err FlamaException)":
            st.oracle_fail("no-domain", req, "missing-domain-is-a-library-error", irep)


def resolve_decimals(s):
    """(fl "dec m e") -> (fl "<repr of the nearest double>")"""
    if isinstance(s, list):
        if len(s) == 2 and s[0] == "fl" and isinstance(s[1], str) and not isinstance(s[1], Sym) and s[1].startswith("dec "):
            _, mm, ee = s[1].split(" ")
            q = Fraction(int(mm)) * Fraction(10) ** int(ee)
            return [s[0], repr(float(q))]
        return [resolve_decimals(x) for x in s]
    return s
