"""S-expressions exchanged with the extracted model (DESIGN Appendix B).

Python representation: Sym (a str subclass) = atom, str = byte string (UTF-8 of the text),
list/tuple = list, int = decimal atom, bool = atom true/false, None = atom nil.
"""


class Sym(str):
    __slots__ = ()

    def __repr__(self):
        return f"Sym({str.__repr__(self)})"


NIL = Sym("nil")


def _esc(s: str) -> str:
    out = []
    for b in s.encode("utf-8", "surrogateescape"):
        if b < 0x20 or b > 0x7E or b in (0x22, 0x5C):
            out.append("\\%02x" % b)
        else:
            out.append(chr(b))
    return '"' + "".join(out) + '"'


def dumps(v) -> str:
    out = []
    _dump(v, out)
    return "".join(out)


def _dump(v, out):
    # iterative would be safer for deep trees; recursion limit is raised by the harness
    if isinstance(v, Sym):
        out.append(str(v))
    elif isinstance(v, bool):
        out.append("true" if v else "false")
    elif v is None:
        out.append("nil")
    elif isinstance(v, int):
        out.append(str(v))
    elif isinstance(v, str):
        out.append(_esc(v))
    elif isinstance(v, (list, tuple)):
        out.append("(")
        first = True
        for x in v:
            if not first:
                out.append(" ")
            first = False
            _dump(x, out)
        out.append(")")
    else:
        raise TypeError(f"cannot encode {type(v)}: {v!r}")


def loads(s: str):
    pos = 0
    n = len(s)
    stack = [[]]
    while pos < n:
        c = s[pos]
        if c in " \t\r\n":
            pos += 1
        elif c == "(":
            stack.append([])
            pos += 1
        elif c == ")":
            done = stack.pop()
            stack[-1].append(done)
            pos += 1
        elif c == '"':
            pos += 1
            buf = bytearray()
            while s[pos] != '"':
                if s[pos] == "\\":
                    buf.append(int(s[pos + 1:pos + 3], 16))
                    pos += 3
                else:
                    buf.append(ord(s[pos]))
                    pos += 1
            pos += 1
            stack[-1].append(buf.decode("utf-8", "surrogateescape"))
        else:
            start = pos
            while pos < n and s[pos] not in ' \t\r\n()"':
                pos += 1
            stack[-1].append(Sym(s[start:pos]))
    assert len(stack) == 1 and len(stack[0]) == 1, "malformed s-expression"
    return stack[0][0]


def tag(t, *args):
    return [Sym(t), *args]
