"""check.py <id> quick|thorough [--replay f] — the single entry point used by MANIFEST.json.

Verdict logic (DESIGN §3.6): (1) regenerate tables, build the property's theorem file (full .vo),
capture Print Assumptions; (2) run the property's correspondence suites and direct oracle;
(3) pass iff every theorem built, every compared case agreed, and every oracle failure is a listed
known finding; otherwise (4) report a VIOLATION with a concrete failing input when one was found.
"""
import fcntl
import hashlib
import json
import os
import re
import subprocess
import sys
import time

HERE = os.path.dirname(os.path.abspath(__file__))
VERIF = os.path.dirname(HERE)
sys.path.insert(0, HERE)
sys.setrecursionlimit(20000)

import gen  # noqa: E402
import modelproc  # noqa: E402
import registry  # noqa: E402

ALLOWED_ASSUMPTIONS = []   # axioms allowed under a property theorem (none intended)
FORBIDDEN = re.compile(r"\b(Admitted|admit|Axiom|Parameter|Conjecture|Unset Guard|bypass_check|"
                       r"type-in-type|impredicative-set|Admit Obligations)\b")


class Suite:
    def __init__(self, ctx, name):
        self.ctx = ctx
        self.name = name
        self.evaluations = 0
        self.distinct = set()
        self.labels = {}
        self.mismatches = []
        self.oracle_fails = []
        self.samples = []

    def record(self, label, case, impl, model, nontrivial=True):
        self.evaluations += 1
        self.labels[label] = self.labels.get(label, 0) + 1
        if nontrivial:
            self.distinct.add(hashlib.blake2b(case.encode(), digest_size=8).digest())
        if len(self.samples) < 3 and nontrivial and len(case) < 1500:
            self.samples.append({"suite": self.name, "label": label, "case": case,
                                 "impl": impl[:1500]})
        if impl != model:
            self.mismatch(label, case, impl, model)

    def mismatch(self, label, case, impl, model):
        if len(self.mismatches) < 50:
            self.mismatches.append({"suite": self.name, "label": label, "case": case,
                                    "impl": impl, "model": model})
        else:
            self.mismatches.append(None)

    def oracle_fail(self, label, case, clause, detail):
        self.oracle_fails.append({"suite": self.name, "label": label, "case": case,
                                  "clause": clause, "detail": str(detail)[:2000]})


class Ctx:
    def __init__(self, prop, tier, seed):
        self.prop = prop
        self.tier = tier
        import fmt
        fmt.REREAD_EVERY = 1 if tier == "thorough" else 2
        self.seed = seed
        self.gen = gen.Gen(seed)
        self.suites = {}
        self.model = None
        self.notes = []

    def suite(self, name):
        if name not in self.suites:
            self.suites[name] = Suite(self, name)
        return self.suites[name]


def sh(cmd, timeout, cwd=VERIF):
    try:
        p = subprocess.run(cmd, shell=True, cwd=cwd, stdout=subprocess.PIPE, stderr=subprocess.STDOUT,
                           text=True, timeout=timeout)
    except subprocess.TimeoutExpired as e:
        return 124, f"TIMEOUT after {timeout}s: {cmd[:200]}\n" + ((e.stdout or b"").decode("utf-8", "replace")[-1500:] if isinstance(e.stdout, bytes) else (e.stdout or "")[-1500:])
    return p.returncode, p.stdout


def build(prop, info, tier, log):
    """regenerate tables, build the Coq targets of this property and the driver, under a lock"""
    os.makedirs(os.path.join(VERIF, "evidence", "logs"), exist_ok=True)
    obligations = []
    with open(os.path.join(VERIF, ".build.lock"), "w") as lock:
        fcntl.flock(lock, fcntl.LOCK_EX)
        rc, out = sh(f"/venv/bin/python tools/gen_tables.py {' '.join(info.get('tables', []))}", 120)
        log.append(out)
        tables_ok = rc == 0
        obligations.append(("tables:" + ",".join(info.get("tables", [])), tables_ok, out[-400:] if not tables_ok else ""))
        if info.get("src"):
            # second tie (DESIGN §10): re-translate the Python text of the pure core into Gen/Src_*.v; the
            # property's theorem file depends on the proofs that tie these definitions to the hand model.
            # A function the translator cannot read fails alone: only the properties that need it are told.
            try:
                os.remove(os.path.join(VERIF, "coq", "Gen", "src_report.json"))    # never read a stale report
            except OSError:
                pass
            rc, out = sh("/venv/bin/python tools/py2coq.py all", 120)
            log.append(out)
            try:
                report = json.load(open(os.path.join(VERIF, "coq", "Gen", "src_report.json")))
            except Exception as e:  # noqa: BLE001
                report = {"?": {"unit": f"no report: {e}"}}
            failed = {}
            for unit, bad in report.items():
                failed.update({(n if n != "unit" else f"unit:{unit}"): why for n, why in bad.items()})
            mine = {n: why for n, why in failed.items() if n in info["src"] or n.startswith("unit:")}
            obligations.append(("source-translation:" + ",".join(info["src"]), not mine,
                                "; ".join(f"{n}: {why}" for n, why in mine.items())[:800]))
        rc, out = sh("make -s driver-only", 3000)
        log.append(out)
        driver_ok = rc == 0
        obligations.append(("model-extraction-and-driver", driver_ok, out[-1500:] if not driver_ok else ""))
        vfile = info["props"]
        vo = vfile[:-2] + ".vo"
        # a proof script that no longer terminates on a changed definition must not stall the check
        rc, out = sh(f"timeout -k 10 1200 make -s -C coq -f Makefile.coq {vo} -j16", 1300)
        log.append(out)
        built = rc == 0
        assumptions_txt = ""
        if built:
            rc2, out2 = sh(f"timeout 600 coqc -Q . FM -w -notation-overridden,-deprecated-hint-without-locality,-ambiguous-paths {vfile}", 700,
                           cwd=os.path.join(VERIF, "coq"))
            assumptions_txt = out2
            built = rc2 == 0
            log.append(out2)
        src = open(os.path.join(VERIF, "coq", vfile)).read()
        theorems = re.findall(r"^\s*(?:Theorem|Example)\s+([A-Za-z0-9_']+)", src, re.M)
        printed = re.findall(r"^\s*Print Assumptions\s+([A-Za-z0-9_'.]+)\s*\.", src, re.M)
        blocks = parse_assumptions(assumptions_txt)
        for i, t in enumerate(theorems):
            ok = built
            note = ""
            if t in printed:
                j = printed.index(t)
                if j < len(blocks):
                    bad = [a for a in blocks[j] if a not in ALLOWED_ASSUMPTIONS]
                    if bad:
                        ok = False
                        note = "assumes " + "; ".join(bad)
                else:
                    ok = False
                    note = "no Print Assumptions output"
            obligations.append(("theorem:" + t, ok, note if ok or note else out[-1500:]))
        # no forbidden vernacular anywhere in the development
        rc, out = sh(r"grep -rnE '\b(Admitted|admit|Axiom|Parameter|Conjecture|Unset Guard|bypass_check|Admit Obligations)\b' coq --include=*.v | grep -v '^coq/Gen/.*GENERATED' | grep -vE '\(\*.*(Admitted|admit|Axiom|Parameter|Conjecture).*\*\)' || true", 60)
        out += section_discipline()
        clean = out.strip() == ""
        obligations.append(("no-admitted-no-axiom-grep", clean, out[:500]))
        coqchk_txt = ""
        if tier == "thorough" and built and os.environ.get("VERIF_NO_COQCHK") != "1":
            mod = "FM." + vfile[:-2].replace("/", ".")
            rc, out = sh(f"timeout 1500 coqchk -silent -o -Q . FM {mod}", 1600, cwd=os.path.join(VERIF, "coq"))
            coqchk_txt = out[-3000:]
            obligations.append(("coqchk:" + mod, rc == 0, coqchk_txt if rc else ""))
        fcntl.flock(lock, fcntl.LOCK_UN)
    return obligations, assumptions_txt, coqchk_txt


def section_discipline():
    """Variable / Hypothesis / Context declarations are allowed inside a Section only (outside they declare axioms)"""
    bad = []
    for root, _dirs, files in os.walk(os.path.join(VERIF, "coq")):
        for fn in files:
            if not fn.endswith(".v"):
                continue
            depth = 0
            path = os.path.join(root, fn)
            for i, line in enumerate(open(path, encoding="utf-8"), 1):
                t = line.strip()
                if re.match(r"(Section|Module Type)\s+\w+", t):
                    depth += 1
                elif re.match(r"End\s+\w+\s*\.", t) and depth > 0:
                    depth -= 1
                elif depth == 0 and re.match(r"(Local\s+|Global\s+)?(Variables?|Hypothes[ie]s|Context)\b", t):
                    bad.append(f"{path}:{i}: {t[:80]}\n")
    return "".join(bad)


def parse_assumptions(txt):
    """split coqc output into one block per Print Assumptions: [] for closed, else axiom names"""
    blocks = []
    cur = None
    for line in txt.splitlines():
        if line.startswith("Closed under the global context"):
            if cur is not None:
                blocks.append(cur)
                cur = None
            blocks.append([])
        elif line.startswith("Axioms:") or line.startswith("Section Variables:"):
            if cur is not None:
                blocks.append(cur)
            cur = []
        elif cur is not None:
            m = re.match(r"^([A-Za-z0-9_.']+)\s*:", line)
            if m:
                cur.append(m.group(1))
    if cur is not None:
        blocks.append(cur)
    return blocks


def load_known(prop):
    path = os.path.join(VERIF, "known_findings.json")
    if not os.path.exists(path):
        return []
    return [k for k in json.load(open(path))["findings"] if k["property"] == prop]


def main():
    args = sys.argv[1:]
    prop = args[0]
    tier = os.environ.get("VERIF_TIER") or (args[1] if len(args) > 1 and not args[1].startswith("--") else "quick")
    if len(args) > 1 and args[1] in ("quick", "thorough"):
        tier = args[1]
    seed = int(os.environ.get("VERIF_SEED", "20260930"))
    replay = None
    if "--replay" in args:
        replay = args[args.index("--replay") + 1]
    if replay:
        # a replay re-runs the check deterministically with the seed and tier recorded in the file: every
        # case derives from that one seed, so the recorded failing input is generated and evaluated again
        rep = json.load(open(replay))
        seed = int(rep.get("seed", seed))
        tier = rep.get("tier", tier)
    info = registry.PROPS[prop]
    t0 = time.time()
    log = []
    obligations, assumptions_txt, coqchk_txt = build(prop, info, tier, log)
    ctx = Ctx(prop, tier, seed)
    driver_ok = all(ok for name, ok, _ in obligations if name == "model-extraction-and-driver")
    suite_errors = []
    if driver_ok:
        ctx.model = modelproc.Model()
        try:
            if True:
                for s in info["suites"]:
                    try:
                        s(ctx)
                    except Exception as e:  # noqa: BLE001
                        import traceback
                        suite_errors.append(f"{getattr(s, '__module__', s)}: {type(e).__name__}: {e}\n"
                                            + traceback.format_exc()[-1500:])
        finally:
            ctx.model.close()
    # ---------------------------------------------------------------- verdict
    known = load_known(prop)
    open_known = [k for k in known if k["status"] == "open"]
    # a check may restrict itself to some of the suites its functions feed (e.g. C02 only looks at the
    # reader suites and at the graph clauses of the oracles), so that a change breaking another property
    # does not alarm this one
    sp = info.get("suite_prefixes")
    cp = info.get("clause_prefixes")
    if sp:
        for name in list(ctx.suites):
            if not any(name.startswith(p) for p in sp):
                ctx.notes.append(f"suite {name} ran but is not part of this check")
                del ctx.suites[name]
    if cp:
        for s in ctx.suites.values():
            s.oracle_fails = [f for f in s.oracle_fails if any(f["clause"].startswith(p) for p in cp)]
    evaluations = sum(s.evaluations for s in ctx.suites.values())
    distinct = sum(len(s.distinct) for s in ctx.suites.values())
    mismatches = [m for s in ctx.suites.values() for m in s.mismatches]
    oracle_fails = [f for s in ctx.suites.values() for f in s.oracle_fails]
    matched = {k["key"]: [] for k in open_known}
    unlisted = []
    for f in oracle_fails:
        key = registry.finding_key(prop, f)
        if key in matched:
            matched[key].append(f)
        else:
            unlisted.append(f)
    for name, s in ctx.suites.items():
        obligations.append((f"suite:{name}", not s.mismatches, f"{len(s.mismatches)} mismatches" if s.mismatches else ""))
    if suite_errors:
        obligations.append(("suites-ran", False, "\n".join(suite_errors)[:3000]))
    failed_obl = [(n, note) for n, ok, note in obligations if not ok]
    violations = 0
    lines = []
    replay_path = None
    os.makedirs(os.path.join(VERIF, "evidence", "replays"), exist_ok=True)
    if unlisted or failed_obl:
        violations = 1
        replay_path = os.path.join(VERIF, "evidence", "replays", f"{prop}-{seed}.json")
        rep = {"property": prop, "seed": seed, "tier": tier,
               "replay_cmd": f"./check {prop} --replay {replay_path}"}
        if unlisted:
            f = min(unlisted, key=lambda x: len(x["case"]))
            rep.update({"kind": "property-fails-on-implementation", "failing_input": f["case"],
                        "clause": f["clause"], "detail": f["detail"], "suite": f["suite"],
                        "other_failures": len(unlisted) - 1,
                        "broken_obligations": failed_obl[:10]})
            tail = ""
        else:
            first_mm = next((m for m in mismatches if m), None)
            rep.update({"kind": "obligation-no-longer-checks", "broken_obligations": failed_obl[:20],
                        "disagreeing_case": first_mm})
            tail = " no-failing-input-found"
        json.dump(rep, open(replay_path, "w"), indent=1, ensure_ascii=False)
        lines.append(f"VIOLATION property={prop} replay={replay_path}{tail}")
    for k in open_known:
        if matched[k["key"]]:
            lines.append(f"KNOWN-FINDING: property={prop} {k['key']}: {k['what']}")
        elif not replay:
            ctx.notes.append(f"known finding {k['key']} did not reproduce on this run")
    wall = time.time() - t0
    dist = dict(ctx.gen.stats)
    samples = [x for s in ctx.suites.values() for x in s.samples][:6]
    samples += [{"obligation": n} for n, ok, _ in obligations[:4]]
    n_obl = len(obligations)
    n_dis = sum(1 for _, ok, _ in obligations if ok)
    evidence = {
        "property_id": prop, "tier": tier, "seed": seed, "level": "proof",
        "coverage": {
            "obligations": n_obl, "discharged": n_dis,
            "checker_cmd": f"make -C /verif/coq -f Makefile.coq {info['props'][:-2]}.vo && coqc -Q . FM {info['props']}"
                           + (" && coqchk -o" if tier == "thorough" else ""),
            "trusted_base": registry.TRUSTED_BASE + info.get("trusted", [])
                            + (registry.SRC_TRUSTED if info.get("src") else []),
            "obligation_list": [{"name": n, "ok": ok, "note": note[:300]} for n, ok, note in obligations],
            "print_assumptions": assumptions_txt[-4000:],
            "coqchk": coqchk_txt,
            "evaluations": evaluations, "distinct_nontrivial": distinct,
            "traces_validated_against_impl": evaluations,     # every evaluation is model vs implementation on one input
            "rule": info.get("rule", ""),
            "samples": samples,
            "suites": {n: {"evaluations": s.evaluations, "distinct_nontrivial": len(s.distinct),
                           "by_label": s.labels, "mismatches": len(s.mismatches),
                           "oracle_failures": len(s.oracle_fails)} for n, s in ctx.suites.items()},
            "input_distribution": {k: {str(a): b for a, b in v.items()} for k, v in dist.items()},
            "known_findings_reproduced": {k: len(v) for k, v in matched.items()},
            "unlisted_oracle_failures": len(unlisted),
            "exhaustive": False,
            "notes": ctx.notes,
        },
        "assumptions": info.get("assumptions", []),
        "wall_s": round(wall, 2),
        "violations": violations,
    }
    json.dump(evidence, open(os.path.join(VERIF, "evidence", f"{prop}.json"), "w"), indent=1, ensure_ascii=False)
    with open(os.path.join(VERIF, "evidence", "logs", f"{prop}.log"), "w") as fh:
        fh.write("\n".join(log)[-200000:])
    print(f"[{prop}] tier={tier} seed={seed} obligations={n_dis}/{n_obl} evaluations={evaluations} "
          f"distinct_nontrivial={distinct} mismatches={len(mismatches)} oracle_failures={len(oracle_fails)} "
          f"(unlisted {len(unlisted)}) wall={wall:.1f}s")
    for n, note in failed_obl[:10]:
        print(f"  BROKEN {n}: {note[:600]}")
    for ln in lines:
        print(ln)
    sys.exit(1 if violations else 0)


if __name__ == "__main__":
    import threading
    sys.setrecursionlimit(1000000)
    threading.stack_size(1024 * 1024 * 1024)
    result = {}

    def target():
        try:
            main()
        except SystemExit as e:
            result["code"] = e.code
        except BaseException:  # noqa: BLE001
            import traceback
            traceback.print_exc()
            result["code"] = 2
    th = threading.Thread(target=target)
    th.start()
    th.join()
    sys.stdout.flush()
    os._exit(result.get("code", 0) or 0)
