"""h_worker.py <cases.json> <out.json> — runs every writer on every case in THIS interpreter process
(started by suite H under a particular PYTHONHASHSEED / locale / encoding environment)."""
import base64
import json
import os
import sys
import tempfile

HERE = os.path.dirname(os.path.abspath(__file__))
sys.path.insert(0, HERE)
sys.setrecursionlimit(100000)
import spec  # noqa: E402
import sx  # noqa: E402


def writers():
    from flamapy.metamodels.fm_metamodel.transformations import (
        UVLWriter, AFMWriter, JSONWriter, GlencoeWriter, FeatureIDEWriter, SPLOTWriter, ClaferWriter,
        UVLReader, JSONReader, GlencoeReader, FeatureIDEReader, AFMReader)
    from flamapy.metamodels.fm_metamodel.transformations.pl_writer import PLWriter
    return [("uvl", UVLWriter, "uvl", UVLReader), ("afm", AFMWriter, "afm", AFMReader),
            ("json", JSONWriter, "json", JSONReader), ("glencoe", GlencoeWriter, "gfm.json", GlencoeReader),
            ("fide", FeatureIDEWriter, "xml", FeatureIDEReader), ("splot", SPLOTWriter, "sxfm", None),
            ("clafer", ClaferWriter, "txt", None), ("pl", PLWriter, "exp", None)]


def b64(x):
    if isinstance(x, str):
        x = x.encode("utf-8", "surrogateescape")
    return base64.b64encode(x).decode("ascii")


def main():
    cases = json.load(open(sys.argv[1], encoding="utf-8"))
    order = list(range(len(cases)))
    if os.environ.get("H_ORDER") == "reversed":       # another history inside the process
        order.reverse()
    out = [None] * len(cases)
    tmp = tempfile.mkdtemp(dir=os.path.dirname(sys.argv[2]))
    for ci in order:
        m = cases[ci]
        res = {}
        for name, W, ext, R in writers():
            fm = spec.build_fm(m)
            before = sx.dumps(spec.fm_sx(spec.dump_fm(fm)))
            path = os.path.join(tmp, f"c{ci}.{ext}")
            entry = {}
            try:
                ret = W(path, fm).transform()
                with open(path, "rb") as fh:
                    data = fh.read()
                entry["returned"] = b64(ret)
                entry["file"] = b64(data)
                ret2 = W(path, fm).transform()              # a repeated call on the same object
                entry["repeat_same"] = (ret2 == ret)
                ret3 = W(None, fm).transform()              # without a file
                entry["nofile_same"] = (ret3 == ret)
                import live
                ret4 = W(None, spec.build_fm(m, mode=live.PLAIN)).transform()   # another object, same content
                entry["same_content_same_text"] = (ret4 == ret)
                try:
                    data.decode("utf-8")
                    entry["utf8"] = True
                except UnicodeDecodeError:
                    entry["utf8"] = False
                if R is not None:
                    try:
                        back = R(path).transform()
                        entry["readback_names"] = sorted(f.name for f in back.get_features())
                    except Exception as e:  # noqa: BLE001
                        entry["readback_names"] = "raises " + type(e).__name__
            except Exception as e:  # noqa: BLE001
                entry["error"] = type(e).__name__
            entry["model_unchanged"] = sx.dumps(spec.fm_sx(spec.dump_fm(fm))) == before
            res[name] = entry
        out[ci] = res
    json.dump(out, open(sys.argv[2], "w"))


if __name__ == "__main__":
    main()
