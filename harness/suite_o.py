"""Suite O — the tree-based operations (C13, C14, C15, C16), compared per operation with the
extracted model, plus independent oracles (brute-force configuration enumerator, direct tree
definitions) that decide the properties on the implementation's answers."""
import itertools

import gen
import spec
import sx
from sx import tag


# ---------------------------------------------------------------------------- implementation
class PersistentOps:
    """one operation object per operation, re-used for every model of the run: a result that
    depends on an earlier execution (cached result, accumulated state) shows up as a mismatch"""

    def __init__(self):
        from flamapy.metamodels.fm_metamodel.operations import (
            FMEstimatedConfigurationsNumber, FMCoreFeatures, FMAtomicSets, FMCountLeafs,
            FMLeafFeatures, FMMaxDepthTree, FMAverageBranchingFactor, FMFeatureAncestors,
            FMVariationPoints)
        self.estimate = FMEstimatedConfigurationsNumber()
        self.core = FMCoreFeatures()
        self.atomic = FMAtomicSets()
        self.count_leafs = FMCountLeafs()
        self.leaf_features = FMLeafFeatures()
        self.max_depth = FMMaxDepthTree()
        self.abf = FMAverageBranchingFactor()
        self.ancestors = FMFeatureAncestors()
        self.vps = FMVariationPoints()
        # results handed out earlier by these objects, with what they looked like then: they belong to the caller
        self.held = {}
        self.held_failures = []

    def hold(self, key, raw):
        """remember the result object of this execution; report when the one of the PREVIOUS execution has changed"""
        def look(x):
            if isinstance(x, dict):
                return sorted((getattr(k, "name", k), look(v)) for k, v in x.items())
            if isinstance(x, (list, tuple, set, frozenset)):
                items = [look(y) for y in x]
                return sorted(items, key=repr) if isinstance(x, (set, frozenset)) else items
            return getattr(x, "name", x)
        prev = self.held.get(key)
        if prev is not None and repr(look(prev[0])) != prev[1]:
            self.held_failures.append(key)
        if isinstance(raw, (list, dict, set)):
            self.held[key] = (raw, repr(look(raw)))
        return raw


def impl_ops(fm, keys, ops=None):
    ops = ops or PersistentOps()
    out = {}

    def run(key, fn):
        if key in keys:
            try:
                out[key] = ("ok", fn())
            except RecursionError:
                raise
            except Exception as e:  # noqa: BLE001
                out[key] = ("err", spec.exn_name(e))
    run("estimate", lambda: ops.estimate.execute(fm).get_result())
    run("core", lambda: sorted(f.name for f in ops.hold("core", ops.core.execute(fm).get_result())))
    run("atomic", lambda: [sorted(f.name for f in s) for s in ops.hold("atomic", ops.atomic.execute(fm).get_result())])
    run("count_leafs", lambda: ops.count_leafs.execute(fm).get_result())
    run("leaf_features", lambda: [f.name for f in ops.hold("leaf_features", ops.leaf_features.execute(fm).get_result())])
    run("max_depth", lambda: ops.max_depth.execute(fm).get_result())
    run("abf", lambda: repr(float(ops.abf.execute(fm).get_result())))

    def ancestors():
        res = []
        for f in fm.get_features():
            ops.ancestors.set_feature(f)
            res.append([f.name, [a.name for a in ops.ancestors.execute(fm).get_result()]])
        return sorted(res)
    run("ancestors", ancestors)
    run("vps", lambda: sorted([k.name, [v.name for v in vs]]
                              for k, vs in ops.hold("vps", ops.vps.execute(fm).get_result()).items()))
    return out


def model_ops(reply, keys):
    q = {x[0]: x[1] for x in reply[1:]}
    out = {}
    for k in keys:
        v = q[k]
        if k in ("estimate", "count_leafs", "max_depth"):
            out[k] = ("ok", int(v))
        elif k == "core":
            out[k] = ("ok", sorted(v))
        elif k == "atomic":
            out[k] = ("ok", [sorted(s) for s in v])
        elif k == "leaf_features":
            out[k] = ("ok", list(v))
        elif k == "abf":
            out[k] = ("ok", repr(int(v) / 100))
        elif k == "ancestors":
            out[k] = ("ok", sorted([x[0], list(x[1])] for x in v))
        elif k == "vps":
            out[k] = ("ok", sorted([x[0], list(x[1])] for x in v))
    return out


# ---------------------------------------------------------------------------- independent oracle
def eval_ctc(node, sel):
    d, l, r = node
    k, v = d
    if k == "s":
        return v in sel
    if k != "op":
        raise ValueError("non-logical term")
    if v == "NOT":
        return not eval_ctc(l, sel)
    a, b = eval_ctc(l, sel), eval_ctc(r, sel)
    if v == "AND":
        return a and b
    if v == "OR":
        return a or b
    if v in ("IMPLIES", "REQUIRES"):
        return (not a) or b
    if v == "EXCLUDES":
        return not (a and b)
    if v == "XOR":
        return a != b
    if v == "EQUIVALENCE":
        return a == b
    raise ValueError(v)


def tree_valid(f, sel):
    """f is selected: check its relations recursively"""
    for r in f["rels"]:
        cs = r["children"]
        k = sum(1 for c in cs if c["name"] in sel)
        mx = len(cs) if r["max"] == -1 else r["max"]
        if not (r["min"] <= k <= mx):
            return False
        for c in cs:
            if c["name"] in sel:
                if not tree_valid(c, sel):
                    return False
            elif any(d["name"] in sel for d in spec.spec_features(c)):
                return False
    return True


def brute_force(m):
    """all valid configurations (frozensets of names); tree only and with constraints"""
    names = [f["name"] for f in spec.spec_features(m["root"])]
    rootn = m["root"]["name"]
    others = [n for n in names if n != rootn]
    tree_ok, full_ok = [], []
    for bits in itertools.product((False, True), repeat=len(others)):
        sel = frozenset([rootn] + [n for n, b in zip(others, bits) if b])
        if tree_valid(m["root"], sel):
            tree_ok.append(sel)
            if all(eval_ctc(a, sel) for _, a in m["ctcs"]):
                full_ok.append(sel)
    return names, tree_ok, full_ok


def oracle(m, impl, keys, bf):
    fails = []
    root = m["root"]
    feats = list(spec.spec_features(root))
    names = [f["name"] for f in feats]
    parent = {root["name"]: None}
    for f in feats:
        for r in f["rels"]:
            for c in r["children"]:
                parent[c["name"]] = f["name"]

    def val(k):
        st, v = impl[k]
        if st != "ok":
            fails.append((f"{k}:raises", v))
            return None
        return v
    if bf is not None:
        _, tree_ok, full_ok = bf
        if "estimate" in keys:
            v = val("estimate")
            if v is not None:
                if v != len(tree_ok):
                    fails.append(("estimate:exact-without-constraints", f"estimate {v} exact {len(tree_ok)}"))
                if v < len(full_ok):
                    fails.append(("estimate:upper-bound", f"estimate {v} exact {len(full_ok)}"))
        if "core" in keys:
            v = val("core")
            if v is not None:
                if len(set(v)) != len(v):
                    fails.append(("core:once", str(v)))
                if root["name"] not in v:
                    fails.append(("core:root", str(v)))
                for n in v:
                    if any(n not in c for c in full_ok):
                        fails.append(("core:sound", n))
                        break
                always = sorted(n for n in names if all(n in c for c in tree_ok))
                if sorted(v) != always and tree_ok:
                    fails.append(("core:complete-without-constraints", f"core {sorted(v)} always {always}"))
        if "atomic" in keys:
            v = val("atomic")
            if v is not None:
                flat = [n for s in v for n in s]
                if sorted(flat) != sorted(names) or any(not s for s in v):
                    fails.append(("atomic:partition", str(v)))
                for s in v:
                    for c in full_ok:
                        inside = [n in c for n in s]
                        if any(inside) and not all(inside):
                            fails.append(("atomic:coselected", f"{s} in {sorted(c)}"))
                            break
                where = {n: i for i, s in enumerate(v) for n in s}
                for f in feats:
                    for r in f["rels"]:
                        if (r["min"], r["max"], len(r["children"])) == (1, 1, 1):
                            c = r["children"][0]["name"]
                            if where.get(c) != where.get(f["name"]):
                                fails.append(("atomic:chains", f"{c} / {f['name']}"))
    # tree-shape definitions
    leaves = [f["name"] for f in feats if not f["rels"]]
    if "count_leafs" in keys:
        v = val("count_leafs")
        if v is not None and v != len(leaves):
            fails.append(("count_leafs", f"{v} != {len(leaves)}"))
    if "leaf_features" in keys:
        v = val("leaf_features")
        if v is not None and sorted(v) != sorted(leaves):
            fails.append(("leaf_features", str(v)))

    def anc(n):
        out = []
        while parent[n] is not None:
            n = parent[n]
            out.append(n)
        return out
    if "max_depth" in keys:
        v = val("max_depth")
        exp = max(len(anc(n)) for n in leaves)
        if v is not None and v != exp:
            fails.append(("max_depth", f"{v} != {exp}"))
    if "abf" in keys:
        v = val("abf")
        nonleaf = [f for f in feats if f["rels"]]
        if v is not None:
            if nonleaf:
                nchild = sum(len(r["children"]) for f in nonleaf for r in f["rels"])
                from fractions import Fraction
                exact = Fraction(nchild, len(nonleaf))
                got = Fraction(v)
                if abs(got - exact) > Fraction(1, 200) + Fraction(1, 10**9):
                    fails.append(("abf:within-half-hundredth", f"{v} vs {float(exact)}"))
    if "ancestors" in keys:
        v = val("ancestors")
        if v is not None and len(set(names)) == len(names):
            exp = sorted([n, anc(n)] for n in names)
            if v != exp:
                fails.append(("ancestors", f"{v[:5]}"))
    if "vps" in keys:
        v = val("vps")
        if v is not None and len(set(names)) == len(names):
            exp = []
            for f in feats:
                var = [c["name"] for r in f["rels"]
                       if (r["min"], r["max"], len(r["children"])) != (1, 1, 1) for c in r["children"]]
                if var:
                    exp.append([f["name"], var])
            if v != sorted(exp):
                fails.append(("vps", f"{v[:5]}"))
    return fails


# ---------------------------------------------------------------------------- streams
def cases(ctx, with_ctcs, big):
    tier = ctx.tier
    g = ctx.gen
    top = 4 if tier == "quick" else 6
    for n in range(1, top + 1):
        for t in gen.all_trees(n, "all" if n <= 3 else "kinds"):
            yield f"exh{n}", dict(root=t, ctcs=[])
    # features whose names differ only in letter case, in relations of different kinds
    F, R = spec.F, spec.R
    yield "twins", dict(root=F("App", [R(1, 1, [F("log")]), R(0, 1, [F("Log")]),
                                       R(0, 1, [F("Db", [R(1, 1, [F("db")]), R(0, 1, [F("DB")])])])]), ctcs=[])
    yield "twins", dict(root=F("P", [R(1, 1, [F("Ab"), F("aB")]), R(0, 1, [F("AB")]), R(1, 1, [F("ab")])]), ctcs=[])
    yield "twins", dict(root=F("P", [R(2, 2, [F("Ab", [R(1, 1, [F("x")])]), F("aB", [R(1, 1, [F("X")]), R(0, 1, [F("y")])])]),
                                     R(0, 1, [F("AB"), F("ab")])]), ctcs=[])
    for m in gen.big_models():
        yield "big", dict(root=m["root"], ctcs=m["ctcs"] if with_ctcs else [])
    # the same operations on a model RETURNED BY A READER (written here in UVL by the harness): bounds of two digits
    kids = [F(f"G{i}") for i in range(12)]
    kids[3]["rels"].append(R(1, 1, [F("Inner")]))
    yield "via-uvl-reader", dict(root=F("Root", [R(1, 1, [F("M", [R(10, 10, kids), R(2, 3, [F(f"H{i}") for i in range(4)])])]),
                                                  R(0, 1, [F("Opt", [R(12, 12, [F(f"J{i}") for i in range(12)])])])]), ctcs=[])
    yield "via-uvl-reader", dict(root=F("Root", [R(1, -1, [F("A"), F("B", [R(0, 1, [F("Bx")])])]), R(1, 1, [F("C"), F("D")])]), ctcs=[])
    # the composed and the decomposed spelling of one word as siblings of different kinds
    yield "twins", dict(root=F("P", [R(1, 1, [F("Cr\u00e8me")]), R(0, 1, [F("Cre\u0300me")]),
                                     R(1, 1, [F("\u212b", [R(1, 1, [F("\u00c5")])])])]), ctcs=[])
    # a chain past 256 levels, mandatory and optional levels alternating, an optional sibling on every fourth level
    f = F("D300")
    for i in range(299, -1, -1):
        rels = [R(1, 1, [f])] if i % 2 else [R(0, 1, [f])]
        if i % 4 == 0:
            rels.append(R(0, 1, [F(f"S{i}")]))
        f = F(f"D{i}", rels)
    yield "deep", dict(root=f, ctcs=[])
    # groups around the 53 bits of a double and the 256 shared int objects: or, select-all and [2..*] over leaves
    for width in (53, 54, 64, 256, 257):
        kids = [F(f"w{i}") for i in range(width)]
        yield "wide", dict(root=F("W", [R(1, width, kids)]), ctcs=[])
        yield "wide", dict(root=F("W", [R(width, width, [F(f"v{i}") for i in range(width)]), R(0, 1, [F("o")])]), ctcs=[])
        if "star" in big:
            yield "wide", dict(root=F("W", [R(2, -1, [F(f"u{i}") for i in range(width)])]), ctcs=[])
    kinds = ("mandatory", "optional", "alternative", "or", "mutex", "card", "nn", "zero")
    nrand = 250 if tier == "quick" else 3000
    for i in range(nrand):
        n = g.rng.randint(2, 11 if tier == "quick" else 13)
        m = g.model(n, n_ctcs=(g.rng.choice([0, 1, 2, 3]) if with_ctcs else 0), kinds=kinds, fcard=True,
                    ctc_depth=2, name_classes=("plain", "space", "keyword", "nonascii"))
        yield "random", m
    if "star" in big:
        for i in range(60 if tier == "quick" else 600):
            yield "star", g.model(g.rng.randint(2, 10), n_ctcs=0, kinds=kinds + ("star",))
    if "large" in big:
        for i in range(20 if tier == "quick" else 200):
            n = g.rng.choice([30, 80, 200]) if tier == "quick" else g.rng.choice([50, 300, 1500, 4000])
            yield "large", g.model(n, n_ctcs=0, kinds=kinds)
        # deep chains and wide groups
        for depth in ([50, 400] if tier == "quick" else [100, 1000, 3000]):
            f = spec.F(f"D{depth}")
            for i in range(depth - 1, -1, -1):
                f = spec.F(f"D{i}", [spec.R(1, 1, [f])] if i % 2 else [spec.R(0, 1, [f])])
            yield "deep", dict(root=f, ctcs=[])
        # exact ties of round(children / branches, 2): branches a multiple of 8 (1.125, 1.625, 2.125, ...)
        for b, extra in [(8, 1), (8, 5), (8, 9), (8, 3), (16, 2), (16, 10), (40, 5), (40, 25), (24, 3)]:
            f = spec.F("L")
            for i in range(b - 1, -1, -1):
                f = spec.F(f"T{i}", [spec.R(1, 1, [f])])
            f["rels"].append(spec.R(0, extra, [spec.F(f"x{j}") for j in range(extra)]) if extra > 1
                             else spec.R(0, 1, [spec.F("x0")]))
            yield "ties", dict(root=f, ctcs=[])
        for width in [50, 500]:
            yield "wide", dict(root=spec.F("W", [spec.R(1, width, [spec.F(f"w{i}") for i in range(width)])]), ctcs=[])


def uvl_text(f, depth=2):
    """a feature of a constraint-free Boolean model with plain names in UVL (groups spelt [a..b], single children under
    mandatory / optional)"""
    tabs = "\t" * depth
    out = tabs + f["name"] + "\n"
    for r in f["rels"]:
        k = len(r["children"])
        if k == 1 and (r["min"], r["max"]) in ((1, 1), (0, 1)):
            head = "mandatory" if r["min"] == 1 else "optional"
        else:
            head = f"[{r['min']}..{'*' if r['max'] == -1 else r['max']}]"
        out += tabs + "\t" + head + "\n"
        for c in r["children"]:
            out += uvl_text(c, depth + 2)
    return out


def read_through_uvl(m):
    import os
    import tempfile
    from flamapy.metamodels.fm_metamodel.transformations import UVLReader
    fd, path = tempfile.mkstemp(suffix=".uvl")
    try:
        with os.fdopen(fd, "w", encoding="utf-8") as fh:
            fh.write("features\n" + uvl_text(m["root"], 1))
        return UVLReader(path).transform()
    finally:
        os.remove(path)


def make_run(name, keys, with_ctcs=True, big=(), bf_limit=12, check_sem=False):
    def run(ctx):
        st = ctx.suite(name)
        ops = PersistentOps()
        for label, m in cases(ctx, with_ctcs, big):
            req = sx.dumps(tag("ops", spec.fm_sx(m)))
            mreply = model_ops(sx.loads(ctx.model.call_raw(req)), keys)
            fm = spec.build_fm(m)
            if label == "via-uvl-reader":
                fm = read_through_uvl(m)         # "built through the constructors or RETURNED BY A READER"
            impl = impl_ops(fm, keys, ops)
            for key in ops.held_failures:
                st.oracle_fail(label, req, "result-handed-out-earlier-was-changed", key)
            ops.held_failures.clear()
            after = spec.dump_fm(fm)
            n = spec.spec_size(m["root"])
            st.record(label, req, repr(impl), repr(mreply), nontrivial=n >= 2)
            if sx.dumps(spec.fm_sx(after)) != sx.dumps(spec.fm_sx(m)):
                st.mismatch(label, req, "model mutated by an operation", "unchanged")
            bf = brute_force(m) if n <= bf_limit else None
            for clause, detail in oracle(m, impl, keys, bf):
                st.oracle_fail(label, req, clause, detail)
            if check_sem and bf is not None and n <= 9:
                # validate the model's semantics themselves against the independent enumerator
                sreq = sx.dumps(tag("sem", spec.fm_sx(m)))
                srep = sx.loads(ctx.model.call_raw(sreq))
                q = {x[0]: x[1] for x in srep[1:]}
                mv = sorted(sorted(s) for s in q["valid"])
                mc = sorted(sorted(s) for s in q["confs"])
                ov = sorted(sorted(c) for c in bf[2])
                oc = sorted(sorted(c) for c in bf[1])
                ss = ctx.suite(name + "-sem")
                ss.record(label, sreq, repr((ov, oc)), repr((mv, mc)), nontrivial=n >= 2)
        # the same operation objects on the same model OBJECT before and after it is edited in place
        g = ctx.gen
        for i in range(25 if ctx.tier == "quick" else 300):
            m = g.model(g.rng.randint(2, 9), n_ctcs=(g.rng.choice([0, 1, 2]) if with_ctcs else 0),
                        kinds=("mandatory", "optional", "alternative", "or", "mutex", "card"), ctc_depth=2)
            fm = spec.build_fm(m)
            impl_ops(fm, keys, ops)
            b = spec.same_shape_variant(m, g.rng)
            spec.retarget(fm, b)
            req = sx.dumps(tag("ops", spec.fm_sx(b)))
            st.record("edited-in-place", req, repr(impl_ops(fm, keys, ops)),
                      repr(model_ops(sx.loads(ctx.model.call_raw(req)), keys)), nontrivial=True)
    run.__module__ = f"suite_o.{name}"
    return run
