"""Suites W-json / R-json and the C05 oracle (JSON round trip)."""
import copy
import json

import fmt
import gen
import live
import spec
import sx
from sx import tag

ALL_NAMES = ("plain", "space", "punct", "keyword", "lead", "nonascii", "quote", "special", "long")
KINDS = ("mandatory", "optional", "alternative", "or", "mutex", "card", "nn", "zero", "star")
VALUES = ("none", "bool", "int", "float", "str", "list", "map")


def json_model(g, n):
    """a model in the JSON fragment"""
    attr_names = g.names(4, ("plain", "space", "nonascii", "quote"))
    m = g.model(n, kinds=KINDS, name_classes=ALL_NAMES, ctc_depth=3,
                attrs=dict(names=attr_names, values=VALUES), wide=True)
    if m["ctcs"] and g.rng.random() < 0.3:
        # the same formula under another name, and a case variant
        name, node = m["ctcs"][0]
        m["ctcs"].append((name + "_dup", node))
    return m


def impl_write(scratch, m, writer_cls, ext):
    """returns (status, returned_text, file_bytes, model_after_dump)"""
    fm = spec.build_fm(m)
    path = scratch.path(ext)
    try:
        if live.mode_of(m)[1] % 3 == 0:
            # a writer object made while the model was in another state and used once already: what it writes
            # now is the model as it is now (constraint list rebound, root renamed in between)
            ctcs, name = fm.ctcs, fm.root.name
            fm.ctcs, fm.root.name = [], name + "Before"
            writer = writer_cls(path, fm)
            try:
                writer.transform()
            except RecursionError:
                raise
            except Exception:  # noqa: BLE001
                pass
            fm.ctcs, fm.root.name = ctcs, name
            ret = writer.transform()
        else:
            ret = writer_cls(path, fm).transform()
    except RecursionError:
        raise
    except Exception as e:  # noqa: BLE001
        return ("err", spec.exn_name(e)), None, None, spec.dump_fm(fm), path
    with open(path, "rb") as fh:
        data = fh.read()
    return ("ok",), ret, data, spec.dump_fm(fm), path


def same_spec(a, b):
    return sx.dumps(spec.fm_sx(a)) == sx.dumps(spec.fm_sx(b))


def run(ctx):
    from flamapy.metamodels.fm_metamodel.transformations import JSONWriter, JSONReader
    w = ctx.suite("W-json")
    r = ctx.suite("R-json")
    g = ctx.gen
    sc = fmt.Scratch()
    try:
        n_cases = 150 if ctx.tier == "quick" else 2500
        sizes = [1, 2, 3, 5, 8, 13] if ctx.tier == "quick" else [1, 2, 5, 12, 30, 80]
        def models():
            for i in range(n_cases):
                yield json_model(g, g.rng.choice(sizes))
            yield from gen.nest_models(gen.LOGICAL, chunk=4)
            yield from gen.case_twin_models()
        for m in models():
            req = sx.dumps(tag("json_write", spec.fm_sx(m)))
            mrep = ctx.model.call_raw(req)
            st, ret, data, after, path = impl_write(sc, m, JSONWriter, "json")
            if st[0] == "ok":
                doc = json.loads(ret)
                irep = sx.dumps(tag("ok", spec.aval_sx(doc)))
            else:
                doc = None
                irep = sx.dumps(tag("err", sx.Sym(st[1])))
            w.record("fragment", req, irep, mrep, nontrivial=spec.spec_size(m["root"]) >= 2)
            if not same_spec(after, m):
                w.oracle_fail("fragment", req, "writer-modified-model", "")
            if doc is None:
                w.oracle_fail("fragment", req, "writer-raises", st[1])
                continue
            if data.decode("utf-8") != ret:
                w.oracle_fail("fragment", req, "returned-differs-from-file", "")
            # ---- reader on the writer's output (both entry points)
            rreq = sx.dumps(tag("json_read", spec.aval_sx(doc)))
            mread = ctx.model.call_raw(rreq)
            holder = {}

            def read_file():
                holder["fm"] = fmt.read_twice(JSONReader, path)
                return holder["fm"]
            iread = sx.dumps(fmt.result_pfm(read_file))
            r.record("writer-output", rreq, iread, mread)
            loaded = json.loads(ret)
            iread2 = sx.dumps(fmt.result_pfm(lambda: JSONReader.parse_json(loaded)))
            if iread2 != iread:
                r.oracle_fail("writer-output", rreq, "parse_json-differs-from-file", iread2[:300])
            # the loaded object is the caller's: parsing leaves it as it was, and parsing it again gives the same
            if loaded != json.loads(ret):
                r.oracle_fail("writer-output", rreq, "parse_json-modified-the-loaded-object", "")
            iread3 = sx.dumps(fmt.result_pfm(lambda: JSONReader.parse_json(loaded)))
            if iread3 != iread:
                r.oracle_fail("writer-output", rreq, "parse_json-differs-from-file", "second call on the same object: " + iread3[:300])
            # ---- C05 oracle: same model back, any number of cycles
            if "fm" not in holder:
                r.oracle_fail("writer-output", req, "reader-raises-on-writer-output", iread[:200])
                continue
            cur = holder["fm"]
            back = spec.dump_fm(cur)
            diffs = fmt.spec_equal(m, back)
            if back["ctcs"] != m["ctcs"]:
                diffs.append("constraints differ")
            for f in spec.spec_features(back["root"]):
                if not isinstance(f["abstract"], bool):
                    diffs.append(f"abstract flag of {f['name']!r} is {f['abstract']!r}")
            if diffs:
                r.oracle_fail("writer-output", req, "roundtrip:same-model", "; ".join(diffs[:4]))
            for fail in fmt.graph_wf(cur, written=fmt.written_names(m)):
                r.oracle_fail("writer-output", req, "graph:" + fail[0], fail[1])
            text = ret
            for cyc in range(2, 4):
                p2 = sc.path("json")
                t2 = JSONWriter(p2, cur).transform()
                if t2 != text:
                    r.oracle_fail("writer-output", req, f"cycle{cyc}:text-differs", "")
                    break
                cur = JSONReader(p2).transform()
                if not same_spec(spec.dump_fm(cur), back):
                    r.oracle_fail("writer-output", req, f"cycle{cyc}:model-differs", "")
                    break
            for c_, d_ in fmt.exchange_cycles(JSONWriter, JSONReader, sc.path("json"), cur, back, same_spec):
                r.oracle_fail("writer-output", req, c_, d_)
        # ---- strings that no UTF-8 text can carry (a lone surrogate is a legal character of a Python string): the
        # S-expression transport to the Gallina model cannot carry them either, so this is the oracle alone
        for nm in ("A\ud800B", "\udfff", "x\udc80"):
            m = dict(root=spec.F("Root", [spec.R(0, 1, [spec.F(nm)]), spec.R(1, 1, [spec.F("Plain")])]),
                     ctcs=[("c0", spec.OP("IMPLIES", spec.T(nm), spec.T("Plain")))])
            label = "lone-surrogate"
            req = repr(nm)
            try:
                fm = spec.build_fm_plain(m)
                path = sc.path("json")
                ret = JSONWriter(path, fm).transform()
                back = spec.dump_fm(JSONReader(path).transform())
                ok = [f["name"] for f in spec.spec_features(back["root"])] == ["Root", nm, "Plain"] and back["ctcs"] == m["ctcs"]
                if not ok:
                    r.oracle_fail(label, req, "roundtrip:same-model", "a name with a lone surrogate does not come back")
            except RecursionError:
                raise
            except Exception as e:  # noqa: BLE001
                r.oracle_fail(label, req, "writer-raises-on-fragment-model", spec.exn_name(e))
        # ---- hand-emitted and malformed documents
        for label, doc in documents(ctx):
            rreq = sx.dumps(tag("json_read", spec.aval_sx(doc)))
            mread = ctx.model.call_raw(rreq)
            path = sc.path("json")
            with open(path, "w", encoding="utf-8") as fh:
                json.dump(doc, fh)
            holder = {}

            def read_file():
                holder["fm"] = fmt.read_twice(JSONReader, path)
                return holder["fm"]
            iread = sx.dumps(fmt.result_pfm(read_file))
            r.record(label, rreq, iread, mread)
            if "fm" in holder:
                for fail in fmt.graph_wf(holder["fm"]):
                    r.oracle_fail(label, rreq, "graph:" + fail[0], fail[1])
    finally:
        sc.close()


def documents(ctx):
    """hand-emitted documents (n-ary operand lists, missing optional keys, old string flags) and a
    malformed stream (one defect per document, inside the shape grammar of the reader model)"""
    g = ctx.gen
    rng = g.rng
    n = 60 if ctx.tier == "quick" else 800
    from flamapy.metamodels.fm_metamodel.transformations.json_writer import to_json
    for i in range(n):
        m = json_model(g, rng.choice([2, 4, 7]))
        doc = json.loads(json.dumps(to_json(spec.build_fm(m))))
        # n-ary rewrite of nested AND/OR/XOR chains, drop 'attributes', legacy flags
        d = copy.deepcopy(doc)

        def flatten(c):
            if c["type"] in ("AND", "OR", "XOR"):
                ops = []
                for o in c["operands"]:
                    o = flatten(o)
                    if o["type"] == c["type"] and rng.random() < 0.7 and o is c["operands"][0]:
                        ops.extend(o["operands"])
                    else:
                        ops.append(o)
                c["operands"] = ops
            elif c["type"] != "FEATURE":
                c["operands"] = [flatten(o) for o in c["operands"]]
            return c
        for c in d["constraints"]:
            flatten(c["ast"])
            c.pop("expr", None)

        def legacy(f):
            if rng.random() < 0.5:
                f["abstract"] = "True" if f["abstract"] else "False"
            for rel in f["relations"]:
                if rel["type"] != "CARDINALITY" and rng.random() < 0.5:
                    rel.pop("card_min", None)
                    rel.pop("card_max", None)
                for ch in rel["children"]:
                    legacy(ch)
        legacy(d["features"])
        yield "hand", d
        # one malformation
        d = copy.deepcopy(doc)
        kind = rng.randrange(13)
        g.count("json_malformed", kind)
        feats = []

        def collect(f):
            feats.append(f)
            for rel in f["relations"]:
                for ch in rel["children"]:
                    collect(ch)
        collect(d["features"])
        f = rng.choice(feats)
        rels = [rel for x in feats for rel in x["relations"]]
        if kind == 0:
            f.pop("name")
        elif kind == 1:
            f.pop("abstract")
        elif kind == 2 and rels:
            rng.choice(rels)["type"] = "FEATURE"
        elif kind == 3 and rels:
            rng.choice(rels).pop("children")
        elif kind == 4 and rels:
            rel = rng.choice(rels)
            rel["type"] = "CARDINALITY"
            rel.pop("card_max", None)
        elif kind == 5:
            d.pop(rng.choice(["features", "constraints"]))
        elif kind == 6 and d["constraints"]:
            rng.choice(d["constraints"])["ast"] = {"type": "NAND", "operands": []}
        elif kind == 7 and d["constraints"]:
            c = rng.choice(d["constraints"])["ast"]
            c["operands"] = c["operands"][:-1] if c["type"] != "FEATURE" else []
        elif kind == 8 and rels:
            rng.choice(rels)["children"] = []
        elif kind in (9, 10) and d["constraints"]:
            # a term that is no name (null, a list, a map), operands that are no list
            def terms(a):
                if a["type"] == "FEATURE":
                    yield a
                else:
                    for o in a["operands"]:
                        yield from terms(o)
            t = rng.choice(list(terms(rng.choice(d["constraints"])["ast"])))
            if kind == 9:
                t["operands"] = [rng.choice([None, ["Bcd"], {"k": 1}])]
            else:
                t["operands"] = "Bcd"
        elif kind == 11:
            f["name"] = rng.choice([1, True, None, 1.5, ["n"]])
        elif kind == 12 and rels:
            rel = rng.choice(rels)
            rel["type"] = "CARDINALITY"
            rel["card_min"] = rng.choice([1.0, True, "1", None, [1]])
            rel["card_max"] = rng.choice([2, 2.0])
        yield "malformed", d
